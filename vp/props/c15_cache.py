"""C15 - the file-info cache survives restarts and interrupted saves.

Suites
  roundtrip     generated cache contents: save_cache -> load_cache / constructor
  crash-points  for every listed content EVERY crash point of one save_cache
                call (open, each write of json.dump, close, before / after the
                rename) is enumerated, aborting with a BaseException (buffers
                flushed while unwinding) and as a simulated kill (user-space
                buffer of generated size dropped); one evaluation per
                (content, mode, crash point)
  hard-exit     the same enumeration with os._exit in a forked child
  truncation    every byte prefix of harness-written cache documents
  corruption    generated malformed / odd documents
  histories     operation lists interpreted against an in-memory model
  restart       two fresh interpreters (atexit save, constructor load)
"""
import atexit as real_atexit
import builtins
import gc
import datetime as dt
import hashlib
import json
import os
import re
import shutil as real_shutil
import subprocess
import sys
import tempfile
import warnings

from hypothesis import strategies as st

from vp.runner import Suite

PROP_ID = "C15"
LEVEL = "fault_enumeration"
QUICK_SHARDS = 4
RULE = (
    "Cache contents (0-40 FileInfos, arbitrary unicode paths, times anywhere "
    "in datetime.min..datetime.max with microseconds, string attributes) are "
    "drawn by Hypothesis.  For each of a seeded list of contents (with and "
    "without an older complete cache file) the I/O steps of one save_cache "
    "call are counted through proxies for the names open / shutil in "
    "typhon.files.fileset and the save is aborted before step k for EVERY k "
    "(exhaustive per content) in two in-process modes and, for fewer contents, "
    "with os._exit in a forked child; each (content, mode, k) is one "
    "evaluation.  Every byte prefix of harness-written documents and generated "
    "malformed documents are loaded by load_cache and by the constructor.  "
    "Histories are operation lists (find / save / crash during save / load / "
    "new FileSet(info_cache=) / simulated interpreter restart / corrupt / "
    "time_coverage reset / files appearing and disappearing) run against an "
    "in-memory model with a brute-force find.  Non-trivial = a crash point "
    "strictly inside the save of a non-empty cache over an existing older "
    "file (crash suites) / a non-empty content (roundtrip) / a document that "
    "is not a valid cache (corruption, truncation) / a history containing a "
    "save-or-crash followed by a load-or-new on the same file.  Distinct = "
    "distinct case hash."
)
ASSUMPTIONS = [
    "cache entries are FileInfo objects as get_info produces them: str path, "
    "two naive datetimes, attr dict with str keys whose values are what JSON "
    "can hold (str, int, finite float, bool, None, lists and str-keyed dicts "
    "of these); a tuple a handler supplies may come back as a list",
    "a FileSet constructed with info_cache= is saved when the interpreter "
    "exits also if the program dropped its last reference before (documented: "
    "'Specify a name to a file here ... When restarting your script, this "
    "cache is used'; nothing asks the user to keep the object alive)",
    "the on-disk time format of existing cache files is "
    "'%Y-%m-%dT%H:%M:%S.%f' (harness-written documents use it)",
    "a missing cache file is allowed and silent (documented: 'which need not "
    "exist'); a warning is required for every existing file whose content is "
    "not a JSON array of objects with the keys path, times, attr",
    "documents that are arrays of such objects but carry odd leaf values may "
    "either be rejected (warning, cache unchanged) or loaded faithfully",
    "an interrupted save may leave '<file>.backup' behind; only '<file>' "
    "itself is constrained",
    "cached files are not inspected again: the handler's get_info must not be "
    "called for a path that is in the cache (documented purpose of the cache); "
    "the cache is authoritative for find until time_coverage is set",
    "save-at-exit is registered through the name atexit of "
    "typhon.files.fileset (simulated restarts call what was registered there; "
    "real restarts are run in fresh interpreters)",
    "the process is single-threaded while save_cache runs",
]

TIME_FMT = "%04d-%02d-%02dT%02d:%02d:%02d.%06d"
DMIN, DMAX = dt.datetime.min, dt.datetime.max
US = dt.timedelta(microseconds=1)


# --------------------------------------------------------------------------
# harness-side document format (independent of typhon)
# --------------------------------------------------------------------------
def fmt_time(t):
    return TIME_FMT % (t.year, t.month, t.day, t.hour, t.minute, t.second,
                       t.microsecond)


STRICT_TIME = re.compile(
    r"^(\d{4})-(\d{2})-(\d{2})T(\d{2}):(\d{2}):(\d{2})\.(\d{6})$", re.ASCII)
LENIENT_TIME = re.compile(
    r"^(\d{4})-(\d{1,2})-( ?\d{1,2})T(\d{1,2}):(\d{1,2}):(\d{1,2})"
    r"\.([0-9]{1,6})$", re.IGNORECASE)


def _mk_time(groups):
    y, mo, d, h, mi, s = (int(g.strip()) for g in groups[:6])
    frac = groups[6]
    us = int(frac + "0" * (6 - len(frac)))
    try:
        return dt.datetime(y, mo, d, h, mi, s, us)
    except ValueError:
        return None


def strict_time(s):
    m = STRICT_TIME.match(s) if isinstance(s, str) else None
    return _mk_time(m.groups()) if m else None


def lenient_time(s):
    """what a tolerant reader could at most make of the string, or None"""
    m = LENIENT_TIME.match(s) if isinstance(s, str) else None
    return _mk_time(m.groups()) if m else None


def entry_doc(e):
    return {"path": e["path"], "times": [fmt_time(e["t0"]), fmt_time(e["t1"])],
            "attr": dict(e["attr"])}


def entries_to_model(entries):
    return {e["path"]: (e["t0"], e["t1"], dict(e["attr"])) for e in entries}


def classify(raw):
    """-> ('invalid', None) | ('strict', {path: (t0, t1, attr)}) | ('odd', doc)"""
    try:
        doc = json.loads(raw.decode("utf-8"))
    except (UnicodeDecodeError, ValueError, RecursionError):
        return "invalid", None
    if not isinstance(doc, list):
        return "invalid", None
    for el in doc:
        if not (isinstance(el, dict) and "path" in el and "times" in el
                and "attr" in el):
            return "invalid", None
    model = {}
    for el in doc:
        ts = el["times"]
        ok = (isinstance(el["path"], str) and isinstance(ts, list)
              and len(ts) == 2 and all(strict_time(t) is not None for t in ts)
              and isinstance(el["attr"], dict) and el["path"] not in model)
        if not ok:
            return "odd", doc
        model[el["path"]] = (strict_time(ts[0]), strict_time(ts[1]),
                             el["attr"])
    return "strict", model


def jsonish(value):
    """attribute values are compared modulo what JSON does to them: a tuple
    is a list afterwards"""
    if isinstance(value, (list, tuple)):
        return [jsonish(v) for v in value]
    if isinstance(value, dict):
        return {k: jsonish(v) for k, v in value.items()}
    return value


def same_value(a, b):
    """== that keeps True / 1 / 1.0 apart"""
    if type(a) is not type(b):
        return False
    if isinstance(a, list):
        return len(a) == len(b) and all(same_value(x, y) for x, y in zip(a, b))
    if isinstance(a, dict):
        return set(a) == set(b) and all(same_value(a[k], b[k]) for k in a)
    return a == b


def snapshot(fs):
    """plain copy of fs.info_cache: {key: (path, times, attr)}"""
    out = {}
    for key, info in fs.info_cache.items():
        times = info.times
        out[key] = (info.path, list(times) if isinstance(times, (list, tuple))
                    else times, jsonish(info.attr)
                    if isinstance(info.attr, dict) else info.attr)
    return out


def model_snapshot(model):
    return {p: (p, [t0, t1], jsonish(attr))
            for p, (t0, t1, attr) in model.items()}


def same_state(snap, expected):
    """snapshots equal, and times are real datetimes where expected are"""
    if set(snap) != set(expected):
        return False
    for key, (path, times, attr) in expected.items():
        gpath, gtimes, gattr = snap[key]
        if gpath != path or not same_value(gattr, attr) \
                or not isinstance(gtimes, list) \
                or len(gtimes) != len(times):
            return False
        for g, t in zip(gtimes, times):
            if isinstance(t, dt.datetime):
                if type(g) is not dt.datetime or g != t or g.tzinfo is not None:
                    return False
            elif g != t or type(g) is not type(t):
                return False
    return True


def diff_state(snap, expected, limit=3):
    out = []
    for key in sorted(set(snap) | set(expected), key=repr):
        a, b = snap.get(key), expected.get(key)
        if a is None or b is None or not same_state({key: a}, {key: b}):
            out.append("%r: got %r expected %r" % (key, a, b))
        if len(out) >= limit:
            break
    return "; ".join(out)


def put_entries(fs, entries):
    from typhon.files import FileInfo
    for e in entries:
        fs.info_cache[e["path"]] = FileInfo(e["path"], [e["t0"], e["t1"]],
                                            dict(e["attr"]))


class Recorder:
    """captures warnings for the duration of a with block"""

    def __enter__(self):
        self._cm = warnings.catch_warnings(record=True)
        self.caught = self._cm.__enter__()
        warnings.simplefilter("always")
        return self

    def __exit__(self, *exc):
        return self._cm.__exit__(*exc)

    @property
    def texts(self):
        return [str(w.message)[:200] for w in self.caught
                if issubclass(w.category, UserWarning)]


# --------------------------------------------------------------------------
# proxies for the module-level names of typhon.files.fileset
# --------------------------------------------------------------------------
class Crash(BaseException):
    pass


class Steps:
    """counts the I/O steps of save_cache and aborts before step `crash_at`"""

    def __init__(self, crash_at=None, mode="exception", bufsize=8192):
        self.n = 0
        self.names = []
        self.crash_at = crash_at
        self.mode = mode            # exception | kill | hard-exit | count
        self.bufsize = bufsize
        self.dead = False
        self.dead_before = None
        self.files = []

    def step(self, name):
        if self.dead:
            return
        if self.crash_at is not None and self.n == self.crash_at:
            self.dead = True
            self.dead_before = name
            if self.mode == "hard-exit":
                os._exit(17)
            if self.mode == "kill":
                for f in self.files:
                    f.kill()
            raise Crash(name)
        self.n += 1
        self.names.append(name)


class BufferedProxyFile:
    """write-mode file with a harness-owned user-space buffer over an
    unbuffered descriptor, so that a kill can drop exactly that buffer"""

    def __init__(self, steps, name, mode):
        self.steps = steps
        self.name = name
        self.mode = mode
        self.raw = builtins.open(
            name, "ab" if "a" in mode else "wb", buffering=0)
        self.buf = bytearray()
        self.closed = False
        steps.files.append(self)

    def kill(self):
        self.buf = bytearray()
        if not self.closed:
            self.closed = True
            self.raw.close()

    def write(self, data):
        self.steps.step("write")
        if self.closed:
            return len(data)
        blob = data.encode("utf-8") if isinstance(data, str) else bytes(data)
        self.buf += blob
        if len(self.buf) >= self.steps.bufsize:
            self._drain()
        return len(data)

    def _drain(self):
        if self.buf:
            self.raw.write(bytes(self.buf))
            self.buf = bytearray()

    def flush(self):
        self.steps.step("flush")
        if not self.closed:
            self._drain()

    def close(self):
        if self.closed:
            return
        try:
            self.steps.step("close")
        except Crash:
            # the close itself fails: nothing more reaches the disk
            self.kill()
            raise
        if self.closed:
            return
        self._drain()
        self.closed = True
        self.raw.close()

    def __enter__(self):
        return self

    def __exit__(self, *exc):
        self.close()
        return False

    def writable(self):
        return True


class CountingRealFile:
    """thin wrapper over a real file object (hard-exit mode: real buffers)"""

    def __init__(self, steps, fh):
        self.steps = steps
        self.fh = fh

    def write(self, data):
        self.steps.step("write")
        return self.fh.write(data)

    def flush(self):
        self.steps.step("flush")
        return self.fh.flush()

    def close(self):
        if not self.fh.closed:
            self.steps.step("close")
            self.fh.close()

    def __enter__(self):
        return self

    def __exit__(self, *exc):
        self.close()
        return False

    def __getattr__(self, name):
        return getattr(self.fh, name)


class ShutilProxy:
    def __init__(self, steps):
        self._steps = steps

    def move(self, src, dst, *args, **kwargs):
        self._steps.step("move")
        res = real_shutil.move(src, dst, *args, **kwargs)
        self._steps.step("after-move")
        return res

    def copyfile(self, src, dst, *args, **kwargs):
        """a copy is not one step: open (truncates), chunk writes, close"""
        with builtins.open(src, "rb") as fh:
            data = fh.read()
        self._steps.step("open")
        out = BufferedProxyFile(self._steps, os.fspath(dst), "wb")
        size = max(1, min(64, self._steps.bufsize))
        for i in range(0, len(data), size):
            out.write(data[i:i + size])
        out.close()
        return dst

    copy = copy2 = copyfile

    def __getattr__(self, name):
        return getattr(real_shutil, name)


class OsProxy:
    """os.replace / os.rename are rename steps too (an implementation may use
    them instead of shutil.move)"""

    def __init__(self, steps):
        self._steps = steps

    def _wrap(self, fn, src, dst, *args, **kwargs):
        self._steps.step("move")
        res = fn(src, dst, *args, **kwargs)
        self._steps.step("after-move")
        return res

    def replace(self, src, dst, *args, **kwargs):
        return self._wrap(os.replace, src, dst, *args, **kwargs)

    def rename(self, src, dst, *args, **kwargs):
        return self._wrap(os.rename, src, dst, *args, **kwargs)

    def __getattr__(self, name):
        return getattr(os, name)


class Instrumented:
    """installs the proxies in typhon.files.fileset for one save_cache call"""

    def __init__(self, steps):
        self.steps = steps

    def __enter__(self):
        import typhon.files.fileset as F
        self.F = F
        steps = self.steps

        def proxy_open(name, mode="r", *args, **kwargs):
            if not any(c in mode for c in "wax+"):
                return builtins.open(name, mode, *args, **kwargs)
            steps.step("open")
            if steps.mode == "hard-exit":
                return CountingRealFile(
                    steps, builtins.open(name, mode, *args, **kwargs))
            return BufferedProxyFile(steps, os.fspath(name), mode)

        self.had_open = "open" in F.__dict__
        self.saved = (F.__dict__.get("open"), F.shutil, F.os)
        F.open = proxy_open
        F.shutil = ShutilProxy(steps)
        F.os = OsProxy(steps)
        return steps

    def __exit__(self, *exc):
        F = self.F
        if self.had_open:
            F.open = self.saved[0]
        else:
            del F.open
        F.shutil = self.saved[1]
        F.os = self.saved[2]
        for f in self.steps.files:
            if not f.closed:
                f.kill()
        return False


class AtexitProxy:
    """stands in for the name atexit in typhon.files.fileset: registrations
    are recorded instead of being left behind in the interpreter"""

    def __init__(self):
        self.registered = []

    def register(self, func, *args, **kwargs):
        self.registered.append((func, args, kwargs))
        return func

    def unregister(self, func):
        self.registered = [r for r in self.registered if r[0] != func]

    def __getattr__(self, name):
        return getattr(real_atexit, name)


class NoAtexit:
    def __enter__(self):
        import typhon.files.fileset as F
        self.F = F
        self.saved = F.atexit
        self.proxy = AtexitProxy()
        F.atexit = self.proxy
        return self.proxy

    def __exit__(self, *exc):
        self.F.atexit = self.saved
        return False


def count_steps(fs, scratch_file):
    """number of I/O steps of fs.save_cache with the current content"""
    steps = Steps(mode="count")
    with Instrumented(steps):
        fs.save_cache(scratch_file)
    return steps


def template_in(root):
    return os.path.join(root, "data", "{year}{month}{day}_{sat}.dat")


def crash_label(steps):
    before = steps.dead_before
    if before == "open":
        return "crash-before-backup-open"
    if before == "write":
        return "crash-mid-write"
    if before in ("close", "flush"):
        return "crash-before-close"
    if before == "move":
        return "crash-before-rename"
    if before == "after-move":
        return "crash-after-rename"
    return "crash-none"


# --------------------------------------------------------------------------
# roundtrip
# --------------------------------------------------------------------------
def check_roundtrip(case, ctx):
    from typhon.files import FileSet
    entries = case["entries"]
    label_content(ctx, entries)
    ctx.nontrivial = len(entries) > 0
    root = tempfile.mkdtemp(prefix="vp-c15-")
    try:
        with NoAtexit():
            cache = os.path.join(root, case["cache_name"])
            fs = FileSet(template_in(root))
            put_entries(fs, entries)
            expected = model_snapshot(entries_to_model(entries))
            for _ in range(case["saves"]):
                fs.save_cache(cache)
            if not entries and not os.path.exists(cache):
                ctx.label("empty-cache-not-written")
                return                  # nothing to restore, nothing stored
            ctx.check(os.path.isfile(cache), "roundtrip/no-cache-file",
                      "save_cache wrote no file")
            ctx.check(same_state(snapshot(fs), expected),
                      "roundtrip/save-changed-the-cache",
                      lambda: diff_state(snapshot(fs), expected))
            raw = read_file(cache)
            try:
                json.loads(raw.decode("utf-8"))
                problem = None
            except (UnicodeDecodeError, ValueError) as exc:
                problem = repr(exc)
            ctx.check(problem is None, "roundtrip/document-not-json",
                      lambda: "%s: %r" % (problem, raw[:300]))
            # load_cache into a fresh object
            fs2 = FileSet(template_in(root))
            with Recorder() as rec:
                fs2.load_cache(cache)
            ctx.check(same_state(snapshot(fs2), expected),
                      "roundtrip/load_cache-differs", lambda: (
                          "%s; warnings=%r" % (
                              diff_state(snapshot(fs2), expected), rec.texts)))
            # the constructor, as after a restart
            with Recorder() as rec:
                fs3 = FileSet(template_in(root), info_cache=cache)
            ctx.check(same_state(snapshot(fs3), expected),
                      "roundtrip/constructor-differs", lambda: (
                          "%s; warnings=%r" % (
                              diff_state(snapshot(fs3), expected), rec.texts)))
            # a second generation: what was loaded is saved and loaded again
            cache2 = cache + ".second"
            fs3.save_cache(cache2)
            fs4 = FileSet(template_in(root))
            fs4.load_cache(cache2)
            ctx.check(same_state(snapshot(fs4), expected),
                      "roundtrip/second-generation-differs",
                      lambda: diff_state(snapshot(fs4), expected))
            # entries that were saved already change IN PLACE (as get_info /
            # FileInfo.update do), then the cache is saved and loaded again
            muts = case.get("mutations") or []
            if entries and muts:
                from typhon.files import FileInfo
                model = entries_to_model(entries)
                for m in muts:
                    path = entries[m["index"] % len(entries)]["path"]
                    info = fs.info_cache[path]
                    t0, t1, attr = model[path]
                    ctx.label("mutate-" + m["how"])
                    if m["how"] == "update":
                        new = [m["t"] if m["which"] in (0, 2) else None,
                               m["t"] if m["which"] in (1, 2) else None]
                        info.update(FileInfo(path, new, {"upd": m["value"]}))
                        t0 = new[0] if new[0] is not None else t0
                        t1 = new[1] if new[1] is not None else t1
                        attr = dict(attr, upd=m["value"])
                    elif m["how"] == "item":
                        info.times[m["which"] % 2] = m["t"]
                        if m["which"] % 2 == 0:
                            t0 = m["t"]
                        else:
                            t1 = m["t"]
                    else:
                        info.attr["upd"] = m["value"]
                        attr = dict(attr, upd=m["value"])
                    model[path] = (t0, t1, attr)
                expected2 = model_snapshot(model)
                ctx.check(same_state(snapshot(fs), expected2),
                          "roundtrip/in-place-change-lost-in-memory",
                          lambda: diff_state(snapshot(fs), expected2))
                fs.save_cache(cache)
                fs6 = FileSet(template_in(root))
                fs6.load_cache(cache)
                ctx.check(same_state(snapshot(fs6), expected2),
                          "roundtrip/stale-after-in-place-change", lambda: (
                              "saved, changed in place %r, saved again: %s"
                              % (muts, diff_state(snapshot(fs6), expected2))))
    finally:
        real_shutil.rmtree(root, ignore_errors=True)


def read_file(path):
    with builtins.open(path, "rb") as fh:
        return fh.read()


def label_content(ctx, entries):
    ctx.label("entries-%s" % (
        "0" if not entries else "1" if len(entries) == 1 else
        "2-5" if len(entries) <= 5 else "6+"))
    times = [t for e in entries for t in (e["t0"], e["t1"])]
    if any(t.year < 1000 for t in times):
        ctx.label("year<1000")
    if any(t.microsecond for t in times):
        ctx.label("microseconds")
    if any(t in (DMIN, DMAX) for t in times):
        ctx.label("datetime-min-max")
    if any(e["attr"] for e in entries):
        ctx.label("attributes")
    if any(isinstance(v, (list, dict)) for e in entries
           for v in e["attr"].values()):
        ctx.label("attr-containers")
    if any(not isinstance(v, (str, list, dict)) for e in entries
           for v in e["attr"].values()):
        ctx.label("attr-numbers-bool-null")
    if any(ord(c) > 127 or ord(c) < 32 or c in '"\\'
           for e in entries for c in e["path"]):
        ctx.label("path-unicode-or-escapes")
    if any(0xD800 <= ord(c) <= 0xDFFF for e in entries
           for txt in [e["path"]] + [k for k in e["attr"]] + [
               v for v in e["attr"].values() if isinstance(v, str)]
           for c in txt):
        ctx.label("lone-surrogate")


# --------------------------------------------------------------------------
# crash points
# --------------------------------------------------------------------------
def run_crash(fs, cache, k, mode, bufsize):
    """save_cache(cache) aborted before step k -> Steps (dead or complete)"""
    steps = Steps(crash_at=k, mode=mode, bufsize=bufsize)
    if mode == "hard-exit":
        sys.stdout.flush()
        sys.stderr.flush()
        pid = os.fork()
        if pid == 0:
            code = 3
            try:
                with Instrumented(steps):
                    fs.save_cache(cache)
                code = 0
            except BaseException:  # noqa - the child must never return
                code = 3
            finally:
                os._exit(code)
        _, status = os.waitpid(pid, 0)
        code = os.waitstatus_to_exitcode(status)
        if code not in (0, 17):
            raise RuntimeError("forked save_cache child ended with %r" % code)
        steps.dead = code == 17
        return steps
    try:
        with Instrumented(steps):
            fs.save_cache(cache)
    except Crash:
        pass
    return steps


class Unrepresentable:
    """an attribute value of a type json knows nothing about"""


def poison_value(kind):
    import numpy as np
    return {"set": {1, 2}, "npint": np.int64(7), "bytes": b"\x00raw",
            "object": Unrepresentable()}[kind]


def run_unserialisable(fs, cache, entries, index, kind="set"):
    """the save fails by itself, inside the JSON encoder: one attribute value
    (as a file handler may put it into FileInfo.attr) cannot be written as
    JSON.  -> Steps marked dead if save_cache raised TypeError / ValueError,
    or None if it returned (with or without a warning)"""
    victim = entries[index % len(entries)]["path"]
    fs.info_cache[victim].attr["poison"] = poison_value(kind)
    steps = Steps(mode="count")
    try:
        with Recorder():
            fs.save_cache(cache)
    except (TypeError, ValueError):
        steps.dead = True
        steps.dead_before = "write"
    finally:
        del fs.info_cache[victim].attr["poison"]
    return steps if steps.dead else None


def judge_after_returned_save(ctx, root, cache, old_raw, old_model, new_model,
                              detail):
    """save_cache returned although one value is not representable: the file
    is the previous complete version, or a complete document of the new
    content (whatever became of the unrepresentable attribute itself)"""
    from typhon.files import FileSet
    if not os.path.exists(cache):
        ctx.check(old_raw is None, "crash/cache-file-lost",
                  "%s: the cache file does not exist any more" % detail)
        return "absent"
    raw = read_file(cache)
    dead = Steps(mode="count")
    dead.dead, dead.dead_before = True, "write"
    if old_raw is not None and raw == old_raw:
        return judge_after_crash(ctx, root, cache, old_raw, old_model,
                                 new_model, dead, "crash", detail)
    try:
        ok = isinstance(json.loads(raw.decode("utf-8")), list)
    except (UnicodeDecodeError, ValueError):
        ok = False
    ctx.check(ok, "crash/truncated-or-mixed-document", lambda: (
        "%s: save_cache returned; the cache file holds neither the previous "
        "bytes nor a JSON array: %d bytes %r ... (previous: %s bytes)" % (
            detail, len(raw), raw[-120:],
            None if old_raw is None else len(old_raw))))
    expected = model_snapshot(new_model)
    with Recorder() as rec:
        fs2 = FileSet(template_in(root))
        fs2.load_cache(cache)
    got = snapshot(fs2)
    for key, (path, times, attr) in got.items():
        if isinstance(attr, dict) and "poison" in attr:
            attr = dict(attr)
            del attr["poison"]
            got[key] = (path, times, attr)
    ctx.check(same_state(got, expected) and not rec.texts,
              "crash/not-the-new-content", lambda: (
                  "%s: save_cache returned; load_cache gives %s; warnings=%r"
                  % (detail, diff_state(got, expected), rec.texts)))
    return "new"


def judge_after_crash(ctx, root, cache, old_raw, old_model, new_model, steps,
                      sig, detail):
    """the cache file is the old complete version (bytes) or loads to the new
    complete content; returns 'old' | 'new' | 'absent'"""
    from typhon.files import FileSet
    where = "crash before step %s (%s)" % (
        steps.dead_before, detail) if steps.dead else "complete save (%s)" % detail
    if not os.path.exists(cache):
        ctx.check(old_raw is None and (steps.dead or not new_model),
                  sig + "/cache-file-lost",
                  lambda: "%s: the cache file does not exist any more (it "
                  "held %s bytes)" % (where, old_raw and len(old_raw)))
        outcome, expect = "absent", {}
    else:
        raw = read_file(cache)
        if steps.dead and old_raw is not None and raw == old_raw:
            outcome, expect = "old", old_model
        else:
            outcome, expect = "new", new_model
            try:
                ok = isinstance(json.loads(raw.decode("utf-8")), list)
            except (UnicodeDecodeError, ValueError):
                ok = False
            ctx.check(ok, sig + "/truncated-or-mixed-document", lambda: (
                "%s: the cache file holds neither the previous bytes nor a "
                "JSON array: %d bytes %r ... (previous: %s bytes)" % (
                    where, len(raw), raw[:120],
                    None if old_raw is None else len(old_raw))))
    # whatever is there must load - through load_cache and the constructor
    expected = model_snapshot(expect)
    import typhon.files.fileset as F
    registered = getattr(F.atexit, "registered", None)
    nreg = len(registered) if registered is not None else 0
    with Recorder() as rec:
        fs2 = FileSet(template_in(root))
        fs2.load_cache(cache)
        fs3 = FileSet(template_in(root), info_cache=cache)
    if registered is not None:
        del registered[nreg:]       # the probe object is not part of the world
    for which, obj in (("load_cache", fs2), ("constructor", fs3)):
        ctx.check(same_state(snapshot(obj), expected),
                  sig + "/not-the-%s-content" % (
                      "previous" if outcome != "new" else "new"), lambda: (
                      "%s: %s gives %s; warnings=%r" % (
                          where, which, diff_state(snapshot(obj), expected),
                          rec.texts)))
    ctx.check(not rec.texts, sig + "/warning-for-complete-file",
              lambda: "%s: %r" % (where, rec.texts))
    return outcome


def check_crash(case, ctx):
    from typhon.files import FileSet
    old, new = case["old"], case["new"]
    k, mode = case["k"], case["mode"]
    label_content(ctx, new)
    ctx.label("mode-" + mode, "old-file" if old is not None else "no-old-file")
    if mode == "hard-exit":
        ctx.label("hard-exit")
    root = tempfile.mkdtemp(prefix="vp-c15-")
    try:
        with NoAtexit():
            cache = os.path.join(root, "cache.json")
            old_raw, old_model = None, {}
            if old is not None:
                fs0 = FileSet(template_in(root))
                put_entries(fs0, old)
                fs0.save_cache(cache)
                old_raw = read_file(cache)
                old_model = entries_to_model(old)
            fs = FileSet(template_in(root))
            put_entries(fs, new)
            new_model = entries_to_model(new)
            if mode == "unserialisable":
                kind = case.get("poison", "set")
                ctx.label("poison-" + kind, "poison-at-%s" % (
                    "first" if k % len(new) == 0 else
                    "last" if k % len(new) == len(new) - 1 else "middle"))
                steps = run_unserialisable(fs, cache, new, k, kind)
                if steps is None:
                    ctx.label("unserialisable-save-returned")
                    outcome = judge_after_returned_save(
                        ctx, root, cache, old_raw, old_model, new_model,
                        "save with a %s attribute in entry %d of %d over %s"
                        % (kind, k % len(new), len(new),
                           "no file" if old is None
                           else "%d old entries" % len(old)))
                    ctx.label("file-" + outcome)
                    ctx.nontrivial = bool(new and old is not None)
                    return
            else:
                steps = run_crash(fs, cache, k, mode, case["buf"])
            if mode == "hard-exit" and steps.dead:
                # the child knows where it died; recount for the label only
                names = count_steps(fs, os.path.join(root, "scratch")).names
                steps.dead_before = (names + ["return"])[min(k, len(names))]
            ctx.label(crash_label(steps))
            outcome = judge_after_crash(
                ctx, root, cache, old_raw, old_model, new_model, steps,
                "crash", "mode=%s k=%d buf=%d, %d new entries over %s" % (
                    mode, k, case["buf"], len(new),
                    "no file" if old is None else "%d old entries" % len(old)))
            ctx.label("file-" + outcome)
            if not steps.dead:
                ctx.check(outcome == "new" or not new_model,
                          "crash/complete-save-not-stored",
                          "the save completed but the file is " + outcome)
            ctx.nontrivial = bool(
                steps.dead and new and old is not None
                and steps.dead_before not in ("open", "after-move"))
            # the interrupted object and a later save still work
            fs.save_cache(cache)
            fs5 = FileSet(template_in(root))
            fs5.load_cache(cache)
            ctx.check(same_state(snapshot(fs5), model_snapshot(new_model)),
                      "crash/save-after-crash-differs",
                      lambda: diff_state(snapshot(fs5),
                                         model_snapshot(new_model)))
    finally:
        real_shutil.rmtree(root, ignore_errors=True)


def seeded_examples(strategy, n, salt):
    """n examples of a strategy as a pure function of VERIF_SEED (used to list
    the contents whose crash points are then enumerated completely)"""
    import hypothesis
    from hypothesis import HealthCheck, Phase, given, settings
    seed = int(os.environ.get("VERIF_SEED", "1") or "1")
    out = []

    def body(x):
        if len(out) < n:
            out.append(x)

    test = given(strategy)(body)
    test = hypothesis.seed(seed * 7919 + salt)(test)
    test = settings(max_examples=n, database=None, deadline=None,
                    suppress_health_check=list(HealthCheck),
                    phases=[Phase.generate],
                    verbosity=hypothesis.Verbosity.quiet)(test)
    test()
    return out


def crash_cases(n_contents, modes, salt, max_entries=5):
    def gen():
        from typhon.files import FileSet
        pairs = seeded_examples(st.tuples(
            st.one_of(contents(0, 3), contents(1, 3), contents(1, 3),
                      st.none()), contents(0, max_entries),
            st.sampled_from([1, 16, 100, 8192])), n_contents, salt)
        # the smallest instances are always there
        e1 = {"path": "/d/a.nc", "t0": dt.datetime(2018, 1, 1),
              "t1": dt.datetime(2018, 1, 1, 1), "attr": {"sat": "A"}}
        e2 = {"path": "/d/b.nc", "t0": DMIN, "t1": DMAX, "attr": {}}
        pairs = [(None, [], 8192), ([e1], [e1, e2], 16)] + pairs
        root = tempfile.mkdtemp(prefix="vp-c15-n-")
        try:
            with NoAtexit():
                for old, new, buf in pairs[:n_contents]:
                    fs = FileSet(template_in(root))
                    put_entries(fs, new)
                    try:
                        n = count_steps(fs, os.path.join(root, "scratch")).n
                    except Exception:  # noqa - reported by the k=0 case
                        n = 0
                    for mode in modes:
                        for k in range(n + 1):
                            yield {"old": old, "new": new, "k": k,
                                   "mode": mode, "buf": buf}
                    if "exception" in modes:
                        kinds = ("set", "npint", "bytes", "object")
                        for i in range(len(new)):
                            yield {"old": old, "new": new, "k": i,
                                   "mode": "unserialisable", "buf": buf,
                                   "poison": kinds[(i + len(new)) % 4]}
                        if len(new) > 1:
                            # every kind also at the last entry
                            for kind in kinds:
                                yield {"old": old, "new": new,
                                       "k": len(new) - 1,
                                       "mode": "unserialisable", "buf": buf,
                                       "poison": kind}
        finally:
            real_shutil.rmtree(root, ignore_errors=True)
    return gen


# --------------------------------------------------------------------------
# malformed documents
# --------------------------------------------------------------------------
def faithful(elem, got):
    """is the loaded (path, times, attr) made of values of the element?"""
    path, times, attr = got
    if path != elem["path"] or type(path) is not type(elem["path"]):
        return False
    if not (attr == elem["attr"] or (elem["attr"] is None and attr in ({}, None))):
        return False
    src = elem["times"]
    if not isinstance(src, list) or len(src) < 2:
        return False
    if not isinstance(times, list) or len(times) != 2:
        return False
    for s, g in zip(src[:2], times):
        if s is None:
            if g is not None:
                return False
        elif isinstance(s, str):
            want = lenient_time(s)
            if want is None or type(g) is not dt.datetime or g != want:
                return False
        elif g != s or type(g) is not type(s):
            return False
    return True


def judge_load(ctx, before, after, kind, info, warned, sig, detail):
    """kind: invalid | strict | odd | missing | unreadable"""
    if kind in ("invalid", "unreadable"):
        ctx.check(same_state(after, before), sig + "/invented-entries", lambda: (
            "%s: cache after loading: %s" % (detail(), diff_state(after, before))))
        ctx.check(warned, sig + "/no-warning", lambda: (
            "%s: loaded silently (cache %s)" % (
                detail(), "unchanged" if same_state(after, before) else "changed")))
    elif kind == "missing":
        ctx.check(same_state(after, before), sig + "/invented-entries", lambda: (
            "%s: missing file, cache: %s" % (detail(), diff_state(after, before))))
    elif kind == "strict":
        expected = dict(before)
        expected.update(model_snapshot(info))
        ctx.check(same_state(after, expected), sig + "/valid-document-not-loaded",
                  lambda: "%s: %s" % (detail(), diff_state(after, expected)))
    else:   # odd
        if same_state(after, before):
            ctx.check(warned, sig + "/no-warning", lambda: (
                "%s: nothing loaded and no warning" % detail()))
            ctx.label("odd-rejected")
            return
        doc = info
        by_path = {}
        for el in doc:
            try:
                by_path.setdefault(el["path"], []).append(el)
            except TypeError:
                by_path = None      # unhashable path: cannot be a key at all
                break
        ok = by_path is not None and set(after) == set(before) | set(by_path)
        if ok:
            for key, got in after.items():
                if key in by_path:
                    ok = ok and any(faithful(el, got) for el in by_path[key])
                else:
                    ok = ok and same_state({key: got}, {key: before[key]})
        ctx.check(ok, sig + "/invented-entries", lambda: (
            "%s: loaded as %r" % (detail(), sorted(after.items(), key=repr)[:4])))
        ctx.label("odd-loaded")


def build_document(case):
    """-> (raw bytes or None for special kinds, kind override or None)"""
    base = [entry_doc(e) for e in case["base"]]
    m = case["mutation"]
    kind = m["kind"]
    layout = case.get("layout", "default")

    def dump(doc):
        if layout == "compact":
            return json.dumps(doc, separators=(",", ":")).encode()
        if layout == "indent":
            try:
                return (json.dumps(doc, indent=2, ensure_ascii=False)
                        + "\n").encode("utf-8")
            except UnicodeEncodeError:      # lone surrogates: escapes only
                return (json.dumps(doc, indent=2) + "\n").encode()
        return json.dumps(doc).encode()

    if kind == "none":
        return dump(base), None
    if kind == "raw":
        return m["data"], None
    if kind == "toplevel":
        return dump(m["value"]), None
    if kind == "missing":
        return None, "missing"
    if kind == "directory":
        return None, "unreadable"
    if kind == "truncate":
        raw = dump(base)
        return raw[:m["at"] % len(raw)], None
    if kind == "extra-key":
        for el in base:
            el["size"] = 12
        return dump(base), None
    if not base:
        base = [entry_doc({"path": "/x", "t0": DMIN, "t1": DMAX, "attr": {}})]
    i = m.get("index", 0) % len(base)
    if kind == "element":
        base[i] = m["value"]
    elif kind == "missing-key":
        del base[i][m["key"]]
    elif kind == "wrong-type":
        base[i][m["key"]] = m["value"]
    elif kind in ("bad-time", "null-time"):
        base[i]["times"][m["which"]] = m["value"]
    elif kind == "dup-path":
        base.append(dict(base[i], attr={"dup": "1"}))
    else:
        raise ValueError(kind)
    return dump(base), None


def check_corruption(case, ctx):
    from typhon.files import FileSet
    m = case["mutation"]
    raw, special = build_document(case)
    ctx.label("mut-" + m["kind"], "loader-" + case["loader"])
    if m["kind"] in ("toplevel", "element", "wrong-type"):
        ctx.label("wrong-type")
    if m.get("short"):
        ctx.label("times-with-fewer-than-two-elements")
    if m["kind"] == "truncate":
        ctx.label("truncated")
    root = tempfile.mkdtemp(prefix="vp-c15-")
    try:
        with NoAtexit():
            cache = os.path.join(root, "cache.json")
            if special == "unreadable":
                os.mkdir(cache)
                kind, info = "unreadable", None
            elif special == "missing":
                kind, info = "missing", None
            else:
                with builtins.open(cache, "wb") as fh:
                    fh.write(raw)
                kind, info = classify(raw)
            ctx.label("doc-" + kind)
            ctx.nontrivial = kind not in ("strict", "missing")
            pre = case["preload"] if case["loader"] == "load_cache" else []
            if pre:
                ctx.label("preloaded")

            def detail():
                return "%s of %s document %r" % (
                    case["loader"], kind,
                    raw[:300] if raw is not None else special)

            with Recorder() as rec:
                if case["loader"] == "load_cache":
                    fs = FileSet(template_in(root))
                    put_entries(fs, pre)
                    before = snapshot(fs)
                    fs.load_cache(cache)
                else:
                    before = {}
                    fs = FileSet(template_in(root), info_cache=cache)
            judge_load(ctx, before, snapshot(fs), kind, info, bool(rec.texts),
                       "corrupt", detail)
    finally:
        real_shutil.rmtree(root, ignore_errors=True)


TRUNCATION_DOCS = [
    [],
    [{"path": "/d/a.nc", "t0": dt.datetime(2018, 1, 1),
      "t1": dt.datetime(2018, 1, 1, 1), "attr": {}}],
    [{"path": "/d/a b.nc", "t0": DMIN, "t1": DMAX, "attr": {"sat": "A"}}],
    [{"path": "/d/ä雪.nc", "t0": dt.datetime(999, 12, 31, 23, 59, 59, 999999),
      "t1": dt.datetime(1000, 1, 1), "attr": {"sat": "N\"18\\", "n": ""}}],
    [{"path": "/d/1.nc", "t0": dt.datetime(2018, 1, 1, 0, 0, 0, 1),
      "t1": dt.datetime(2018, 1, 1, 0, 0, 0, 2), "attr": {"a": "1"}},
     {"path": "/d/2.nc", "t0": dt.datetime(2018, 1, 2),
      "t1": dt.datetime(2018, 1, 3), "attr": {"a": "2"}}],
    [{"path": "p%d" % i, "t0": dt.datetime(2000 + i, 1, 1),
      "t1": dt.datetime(2000 + i, 6, 1), "attr": {}} for i in range(3)],
    [{"path": "", "t0": DMIN, "t1": DMIN, "attr": {"": ""}}],
    [{"path": "/d/[x].nc", "t0": DMAX, "t1": DMAX, "attr": {"k": "]}"}}],
    [{"path": "/d/n\n.nc", "t0": dt.datetime(1, 1, 1, 0, 0, 1),
      "t1": dt.datetime(9999, 1, 1), "attr": {"x": "\u0000"}}],
    [{"path": "/d/z.nc", "t0": dt.datetime(2018, 5, 5, 5, 5, 5, 500000),
      "t1": dt.datetime(2018, 5, 5, 6), "attr": {"sat": "B", "orbit": "17"}}],
]


def truncation_cases(n_docs):
    def gen():
        for d, entries in enumerate(TRUNCATION_DOCS[:n_docs]):
            layout = ("default", "compact", "indent")[d % 3]
            case = {"base": entries, "layout": layout,
                    "mutation": {"kind": "none"}}
            raw, _ = build_document(case)
            for at in range(len(raw)):
                yield {"base": entries, "layout": layout, "preload": [],
                       "loader": ("load_cache", "constructor")[at % 2],
                       "mutation": {"kind": "truncate", "at": at}}
    return gen


# --------------------------------------------------------------------------
# histories
# --------------------------------------------------------------------------
TEMPLATES = {
    "end": "{year}{month}{day}_{hour}{minute}{second}-"
           "{end_hour}{end_minute}{end_second}_{sat}.dat",
    "start": "{year}{month}{day}_{hour}{minute}{second}_{sat}.dat",
    "micro": "{year}{month}{day}_{hour}{minute}{second}{microsecond}_{sat}.dat",
    "none": "{sat}_{num}.dat",
}


def file_name(template, idx, f):
    t0 = f["t0"]
    d = "%04d%02d%02d_%02d%02d%02d" % (t0.year, t0.month, t0.day, t0.hour,
                                       t0.minute, t0.second)
    if template == "end":
        t1 = t0 + dt.timedelta(seconds=f["dur"])
        return "%s-%02d%02d%02d_%s.dat" % (d, t1.hour, t1.minute, t1.second,
                                           f["sat"])
    if template == "start":
        return "%s_%s.dat" % (d, f["sat"])
    if template == "micro":
        return "%s%06d_%s.dat" % (d, t0.microsecond, f["sat"])
    return "%s_%d.dat" % (f["sat"], idx)


def handler_attr(idx):
    """what a file handler typically reports next to the times"""
    return {"h": "h%d" % idx, "channels": [1, 2, idx], "orbit": 4000 + idx,
            "quality": {"flag": idx % 2 == 0, "levels": [0.5, 2.25]},
            "shape": (2, idx), "note": None}


class World:
    def __init__(self, case, root, ctx):
        self.ctx = ctx
        self.root = root
        self.template = case["template"]
        self.datadir = os.path.join(root, "data")
        os.mkdir(self.datadir)
        self.pattern = os.path.join(self.datadir, TEMPLATES[self.template])
        self.files = []          # population: dicts with name/path/present
        seen = set()
        for idx, f in enumerate(case["files"]):
            f = dict(f)
            if self.template != "micro":
                f["t0"] = f["t0"].replace(microsecond=0)
            name = file_name(self.template, idx, f)
            if name in seen:
                continue
            seen.add(name)
            f.update(name=name, path=os.path.join(self.datadir, name),
                     idx=idx, exists=False)
            self.files.append(f)
            if f["present"]:
                self.touch(f)
        for n in range(case["decoys"]):
            with builtins.open(os.path.join(
                    self.datadir, ("README%d.txt", "x%d.dat")[n % 2] % n), "w"):
                pass
        self.cache_paths = [os.path.join(root, "cache%d.json" % j)
                            for j in range(2)]
        # model of the cache files: None (missing) or dict(raw=, kind=, info=)
        self.cfiles = [None, None]
        self.sets = []
        self.alive = []
        self.calls = {}
        self.scratch = os.path.join(root, "scratch")
        os.mkdir(self.scratch)

    def touch(self, f):
        with builtins.open(f["path"], "w"):
            pass
        f["exists"] = True

    # -- truth -------------------------------------------------------------
    def handler_info(self, f):
        t0 = f["t0"] + dt.timedelta(seconds=f["hshift"])
        return t0, t0 + dt.timedelta(seconds=f["dur"]), handler_attr(f["idx"])

    def fresh(self, f, sm):
        """what get_info must compute for an uncached file"""
        if sm["via"] == "handler":
            return self.handler_info(f)
        attr = {"sat": f["sat"]}
        if self.template == "none":
            attr["num"] = str(f["idx"])
            t0, t1 = DMIN, DMAX
        elif self.template == "end":
            t0, t1 = f["t0"], f["t0"] + dt.timedelta(seconds=f["dur"])
        else:
            t0 = f["t0"]
            t1 = t0 + sm["coverage"] if sm["coverage"] is not None else t0
        if sm["via"] == "both":
            h0, h1, hattr = self.handler_info(f)
            attr.update(hattr)
            t0, t1 = h0, h1
        return t0, t1, attr

    # -- filesets ----------------------------------------------------------
    def new_set(self, op, atexit_proxy):
        from typhon.files import FileSet, FileInfo
        from typhon.files.handlers.common import FileHandler
        ctx = self.ctx
        via = op["via"]
        cov = (None if op["coverage"] is None
               else dt.timedelta(seconds=op["coverage"]))
        kwargs = {}
        if via != "filename":
            by_path = {f["path"]: f for f in self.files}
            calls = self.calls

            def info(file_info):
                f = by_path[file_info.path]
                calls[f["path"]] = calls.get(f["path"], 0) + 1
                h0, h1, hattr = self.handler_info(f)
                return FileInfo(file_info.path, [h0, h1], hattr)
            kwargs.update(handler=FileHandler(info=info), info_via=via)
        j = op["file"]
        model = {}
        nreg = len(atexit_proxy.registered)
        if j is None:
            fs = FileSet(self.pattern, time_coverage=cov, **kwargs)
        else:
            j %= 2
            cf = self.cfiles[j]
            with Recorder() as rec:
                fs = FileSet(self.pattern, time_coverage=cov,
                             info_cache=self.cache_paths[j], **kwargs)
            kind = "missing" if cf is None else cf["kind"]
            judge_load(ctx, {}, snapshot(fs), kind,
                       cf and cf["info"], bool(rec.texts), "history/new",
                       lambda: "FileSet(info_cache=) on %s file %r" % (
                           kind, cf and cf["raw"][:200]))
            if kind == "strict":
                model = {p: (a, b, dict(c)) for p, (a, b, c) in cf["info"].items()}
                ctx.label("loaded-by-constructor")
        sm = {"fs": fs, "coverage": cov, "via": via, "cache": model,
              "file": j, "registered": atexit_proxy.registered[nreg:]}
        if len(self.sets) >= 3:
            self.sets.pop(0)
        self.sets.append(sm)
        self.alive.append(sm)       # atexit keeps every object alive
        self.verify_cache(sm, "history/new")
        return sm

    def pick(self, i):
        return self.sets[i % len(self.sets)]

    def verify_cache(self, sm, sig):
        expected = model_snapshot(sm["cache"])
        got = snapshot(sm["fs"])
        self.ctx.check(same_state(got, expected), sig + "/cache-state", lambda: (
            "info_cache differs from the model: %s" % diff_state(got, expected)))

    # -- operations --------------------------------------------------------
    def op_find(self, op):
        from typhon.files.fileset import NoFilesError
        ctx = self.ctx
        sm = self.pick(op["fs"])
        start, end = op["start"], op["end"]
        lo = DMIN if start is None else start
        hi = (DMAX if end is None else end) - US
        examined = [f for f in self.files if f["exists"]]
        expected = []
        must_not_call = set()
        for f in examined:
            if f["path"] in sm["cache"]:
                must_not_call.add(f["path"])
            else:
                sm["cache"][f["path"]] = self.fresh(f, sm)
            t0, t1, attr = sm["cache"][f["path"]]
            if t0 <= hi and t1 >= lo:
                expected.append((t0, t1, f["path"], jsonish(attr)))
        expected.sort(key=lambda r: (r[0], r[1], r[2]))
        calls_before = dict(self.calls)
        try:
            got = list(sm["fs"].find(start, end,
                                     no_files_error=op["no_files_error"]))
        except NoFilesError:
            ctx.check(not expected and op["no_files_error"],
                      "history/find/NoFilesError-with-files", lambda: (
                          "find(%s, %s) raised NoFilesError, expected %r"
                          % (start, end, [r[2] for r in expected])))
            got = None
            ctx.label("find-no-files")
        if got is not None:
            ctx.check(not (op["no_files_error"] and not expected),
                      "history/find/no-NoFilesError",
                      "nothing to find but no NoFilesError")
            rows = [(g.times[0], g.times[1], g.path, jsonish(g.attr))
                    for g in got]
            ctx.check(sorted(rows, key=lambda r: (r[0], r[1], r[2])) == expected,
                      "history/find/wrong-answer", lambda: (
                          "find(%s, %s) via=%s coverage=%s with %d cached "
                          "entries\n got      %r\n expected %r" % (
                              start, end, sm["via"], sm["coverage"],
                              len(must_not_call), rows, expected)))
            keys = [(r[0], r[1]) for r in rows]
            ctx.check(keys == sorted(keys), "history/find/not-sorted",
                      lambda: repr(rows))
            if expected:
                ctx.label("find-hit")
            if len(expected) < len(examined):
                ctx.label("find-miss")
        if must_not_call:
            ctx.label("find-with-cached-entries")
        if sm["via"] != "filename":
            again = [p for p in must_not_call
                     if self.calls.get(p, 0) != calls_before.get(p, 0)]
            ctx.check(not again, "history/find/cache-not-consulted", lambda: (
                "the handler was asked again for cached files %r" % again))
        self.verify_cache(sm, "history/find")

    def store(self, j, sm):
        """model: file j now holds a complete copy of sm's cache"""
        raw = read_file(self.cache_paths[j])
        self.cfiles[j] = {
            "raw": raw, "kind": "strict",
            "info": {p: (a, b, dict(c)) for p, (a, b, c) in sm["cache"].items()}}

    def op_save(self, op):
        sm = self.pick(op["fs"])
        j = op["file"] % 2
        sm["fs"].save_cache(self.cache_paths[j])
        if not sm["cache"] and self.cfiles[j] is None \
                and not os.path.exists(self.cache_paths[j]):
            return                      # an empty cache over no file
        self.ctx.check(os.path.isfile(self.cache_paths[j]),
                       "history/save/no-file", "save_cache wrote no file")
        self.store(j, sm)
        self.verify_cache(sm, "history/save")

    def op_crash(self, op):
        ctx = self.ctx
        sm = self.pick(op["fs"])
        j = op["file"] % 2
        cf = self.cfiles[j]
        if cf is not None and cf["kind"] != "strict":
            # over a corrupt file: plain save semantics are checked elsewhere
            return self.op_save(op)
        n = count_steps(sm["fs"], os.path.join(self.scratch, "count.json")).n
        k = op["k"] % (n + 1)
        steps = run_crash(sm["fs"], self.cache_paths[j], k, op["mode"],
                          op["buf"])
        ctx.label(crash_label(steps), "history-crash")
        outcome = judge_after_crash(
            ctx, self.root, self.cache_paths[j],
            None if cf is None else cf["raw"],
            {} if cf is None else cf["info"], sm["cache"], steps,
            "history/crash", "mode=%s k=%d/%d" % (op["mode"], k, n))
        if outcome == "new":
            self.store(j, sm)
        self.verify_cache(sm, "history/crash")

    def op_load(self, op):
        sm = self.pick(op["fs"])
        j = op["file"] % 2
        cf = self.cfiles[j]
        before = snapshot(sm["fs"])
        with Recorder() as rec:
            sm["fs"].load_cache(self.cache_paths[j])
        kind = "missing" if cf is None else cf["kind"]
        judge_load(self.ctx, before, snapshot(sm["fs"]), kind,
                   cf and cf["info"], bool(rec.texts), "history/load",
                   lambda: "load_cache of %s file %r" % (
                       kind, cf and cf["raw"][:200]))
        if kind == "strict":
            for p, (a, b, c) in cf["info"].items():
                sm["cache"][p] = (a, b, dict(c))
            self.ctx.label("loaded-by-load_cache")
        self.verify_cache(sm, "history/load")

    def op_coverage(self, op):
        sm = self.pick(op["fs"])
        cov = (None if op["value"] is None
               else dt.timedelta(seconds=op["value"]))
        sm["fs"].time_coverage = cov
        sm["coverage"] = cov
        if sm["cache"]:
            self.ctx.label("coverage-reset-nonempty")
        sm["cache"] = {}
        self.verify_cache(sm, "history/time_coverage")

    def op_toggle(self, op):
        if not self.files:
            return
        f = self.files[op["index"] % len(self.files)]
        if f["exists"]:
            os.unlink(f["path"])
            f["exists"] = False
            self.ctx.label("file-removed")
        else:
            self.touch(f)
            self.ctx.label("file-added")

    def op_corrupt(self, op):
        j = op["file"] % 2
        path = self.cache_paths[j]
        cf = self.cfiles[j]
        kind, arg = op["kind"], op["arg"]
        if kind == "delete":
            if cf is not None:
                os.unlink(path)
            self.cfiles[j] = None
            return
        old = cf["raw"] if cf is not None else b""
        if kind == "truncate" and len(old) > 0:
            raw = old[:arg % len(old)]
        elif kind == "random" or kind == "truncate":
            raw = hashlib.shake_256(b"c15-%d" % arg).digest(1 + arg % 60)
        elif kind == "toplevel":
            raw = json.dumps([{}, "", 5, None, {"path": "p"}, "abc", True,
                              1.5][arg % 8]).encode()
        else:
            doc = None
            if cf is not None and cf["kind"] == "strict" and cf["info"]:
                doc = json.loads(old.decode("utf-8"))
            if not doc:
                doc = [entry_doc({"path": "/q", "t0": DMIN, "t1": DMAX,
                                  "attr": {}})]
            i = arg % len(doc)
            if kind == "element":
                doc[i] = [5, "s", None, [], [1, 2], True][arg % 6]
            else:   # missing-key
                del doc[i][("path", "times", "attr")[arg % 3]]
            raw = json.dumps(doc).encode()
        got_kind, info = classify(raw)
        if got_kind != "invalid":
            return                      # (cannot happen) keep the model exact
        with builtins.open(path, "wb") as fh:
            fh.write(raw)
        self.cfiles[j] = {"raw": raw, "kind": "invalid", "info": None}
        self.ctx.label("corrupt-" + kind)

    def op_restart(self, op, atexit_proxy):
        """interpreter exit (registered callbacks, LIFO), then a new object"""
        from typhon.files import FileSet
        # callbacks run last-registered-first, so the object that was
        # constructed first writes a shared file last
        final = {}
        for sm in self.alive:
            if sm["file"] is not None:
                final.setdefault(sm["file"], sm)
        if op.get("collect"):
            # the program dropped its filesets before the interpreter exits
            for sm in self.alive:
                sm["fs"] = None
            self.sets = []
            gc.collect()
            self.ctx.label("restart-after-collect")
        while atexit_proxy.registered:
            func, args, kwargs = atexit_proxy.registered.pop()
            func(*args, **kwargs)
        for j, sm in sorted(final.items()):
            path = self.cache_paths[j]
            if not sm["cache"] and self.cfiles[j] is None \
                    and not os.path.exists(path):
                continue
            probe = FileSet(template_in(self.root))
            if os.path.isfile(path):
                probe.load_cache(path)
            expected = model_snapshot(sm["cache"])
            self.ctx.check(
                os.path.isfile(path)
                and same_state(snapshot(probe), expected),
                "history/restart/cache-not-saved-at-exit", lambda: (
                    "FileSet(info_cache=cache%d) held %d entries at exit; the "
                    "file %s: %s" % (
                        j, len(expected),
                        "exists" if os.path.isfile(path) else "is missing",
                        diff_state(snapshot(probe), expected))))
            self.store(j, sm)
            self.ctx.label("restart")
        self.sets = []
        self.alive = []
        return self.new_set(op, atexit_proxy)


def check_history(case, ctx):
    ctx.label("template-" + case["template"])
    root = tempfile.mkdtemp(prefix="vp-c15-")
    try:
        with NoAtexit() as atexit_proxy:
            world = World(case, root, ctx)
            world.new_set(case["first"], atexit_proxy)
            ctx.label("via-" + case["first"]["via"])
            written, roundtrips = set(), 0
            for op in case["ops"]:
                name = op["op"]
                ctx.label("op-" + name)
                if name == "find":
                    world.op_find(op)
                elif name == "save":
                    world.op_save(op)
                    written.add(op["file"] % 2)
                elif name == "crash":
                    world.op_crash(op)
                    written.add(op["file"] % 2)
                elif name == "load":
                    world.op_load(op)
                    roundtrips += (op["file"] % 2) in written
                elif name == "new":
                    world.new_set(op, atexit_proxy)
                    roundtrips += op["file"] is not None and (
                        op["file"] % 2) in written
                elif name == "restart":
                    for sm in world.alive:
                        if sm["file"] is not None and sm["registered"]:
                            written.add(sm["file"])
                    world.op_restart(op, atexit_proxy)
                    roundtrips += op["file"] is not None and (
                        op["file"] % 2) in written
                elif name == "coverage":
                    world.op_coverage(op)
                elif name == "toggle":
                    world.op_toggle(op)
                elif name == "corrupt":
                    world.op_corrupt(op)
                    written.discard(op["file"] % 2)
                else:
                    raise ValueError(name)
            ctx.nontrivial = roundtrips > 0
            if any(t.year < 1000 for sm in world.sets
                   for (a, b, _) in sm["cache"].values() for t in (a, b)):
                ctx.label("year<1000")
            if any(t.microsecond for sm in world.sets
                   for (a, b, _) in sm["cache"].values() for t in (a, b)):
                ctx.label("microseconds")
    finally:
        real_shutil.rmtree(root, ignore_errors=True)


# --------------------------------------------------------------------------
# real restarts
# --------------------------------------------------------------------------
RESTART_SCRIPT = r"""
import json, sys, warnings
warnings.simplefilter("ignore")
import gc
from typhon.files import FileSet
from typhon.files.handlers.common import FileHandler, FileInfo
pattern, cache, phase, via, scope = sys.argv[1:6]
kwargs = {}
if via == "both":
    def info(file_info):
        return FileInfo(file_info.path, None, {
            "channels": [1, 2, 3], "orbit": 4711,
            "quality": {"flag": True, "levels": [0.5, 2.25]},
            "shape": (2, 3), "note": None})
    kwargs = dict(handler=FileHandler(info=info), info_via="both")


def work():
    with warnings.catch_warnings(record=True) as caught:
        warnings.simplefilter("always")
        fs = FileSet(pattern, info_cache=cache, **kwargs)
    nwarn = len([w for w in caught if "cache" in str(w.message)])
    loaded = sorted(fs.info_cache)
    found = [[f.path, f.times[0].isoformat(), f.times[1].isoformat(), f.attr]
             for f in fs.find(no_files_error=False)]
    cached = {p: [i.times[0].isoformat(), i.times[1].isoformat(), i.attr]
              for p, i in fs.info_cache.items()}
    return fs, {"loaded": loaded, "found": found, "cached": cached,
                "warnings": nwarn}


if scope == "function":
    out = work()[1]             # the fileset was local to the function
elif scope == "deleted":
    fs, out = work()
    del fs
else:
    fs, out = work()            # module level: alive until exit
gc.collect()
print("@@" + json.dumps(out))
if phase == "raise":
    raise RuntimeError("script dies after find")
"""


def restart_cases():
    base = dt.datetime(2018, 3, 1, 12)
    pops = {
        "end": [{"t0": base + dt.timedelta(hours=i), "dur": 3000 + i,
                 "sat": s, "hshift": 0, "present": True}
                for i, s in enumerate(["A", "NOAA18", "B-2"])],
        "micro": [{"t0": dt.datetime(999, 12, 31, 23, 59, 59, 999999),
                   "dur": 0, "sat": "A", "hshift": 0, "present": True},
                  {"t0": dt.datetime(2018, 1, 1, 0, 0, 0, 7), "dur": 0,
                   "sat": "B", "hshift": 0, "present": True}],
        "none": [{"t0": base, "dur": 0, "sat": s, "hshift": 0,
                  "present": True} for s in ["A", "B"]],
    }
    yield {"template": "end", "files": pops["end"], "first_exit": "normal",
           "via": "both", "scope": "function"}
    yield {"template": "none", "files": pops["none"], "first_exit": "normal",
           "via": "filename", "scope": "module"}
    yield {"template": "micro", "files": pops["micro"], "first_exit": "raise",
           "via": "filename", "scope": "deleted"}
    yield {"template": "end", "files": pops["end"], "first_exit": "raise",
           "via": "both", "scope": "module"}


def check_restart(case, ctx):
    from vp import runner
    via, scope = case.get("via", "filename"), case.get("scope", "module")
    ctx.label("restart", "template-" + case["template"],
              "first-exit-" + case["first_exit"], "restart-via-" + via,
              "restart-scope-" + scope)
    root = tempfile.mkdtemp(prefix="vp-c15-")
    try:
        world_case = dict(case, decoys=1)
        world = World(world_case, root, ctx)
        sm = {"via": "filename", "coverage": None}
        truth = {f["path"]: world.fresh(f, sm) for f in world.files}
        extra = {} if via == "filename" else {
            "channels": [1, 2, 3], "orbit": 4711,
            "quality": {"flag": True, "levels": [0.5, 2.25]},
            "shape": [2, 3], "note": None}
        expect_cached = {p: [a.isoformat(), b.isoformat(), dict(attr, **extra)]
                         for p, (a, b, attr) in truth.items()}
        cache = world.cache_paths[0]
        env = runner.child_env()
        outs = []
        for phase in (case["first_exit"], "normal", "normal"):
            proc = subprocess.run(
                [sys.executable, "-c", RESTART_SCRIPT, world.pattern, cache,
                 phase, via, scope], env=env, capture_output=True, text=True, timeout=600)
            line = [ln for ln in proc.stdout.splitlines() if ln.startswith("@@")]
            if not line or (proc.returncode != 0) != (phase == "raise"):
                raise RuntimeError("restart child failed (rc=%s): %s" % (
                    proc.returncode, proc.stderr[-2000:]))
            outs.append(json.loads(line[0][2:]))
            ctx.check("Error in atexit" not in proc.stderr
                      and "Exception ignored" not in proc.stderr,
                      "restart/exit-handler-failed", proc.stderr[-1500:])
        first, second, third = outs
        ctx.check(first["loaded"] == [] and first["warnings"] == 0,
                  "restart/first-run-not-empty", repr(first))
        ctx.check(os.path.isfile(cache), "restart/no-cache-file-after-exit",
                  "the first interpreter left no cache file")
        for n, out in (("second", second), ("third", third)):
            ctx.check(out["warnings"] == 0, "restart/warning-on-load", repr(out))
            ctx.check(out["loaded"] == sorted(truth),
                      "restart/cache-not-restored", lambda: (
                          "%s interpreter loaded %r, expected %r; cache file: "
                          "%r" % (n, out["loaded"], sorted(truth),
                                  read_file(cache)[:500])))
            ctx.check(out["cached"] == expect_cached,
                      "restart/cache-content-differs", lambda: (
                          "%s interpreter: %r expected %r"
                          % (n, out["cached"], expect_cached)))
            ctx.check(out["found"] == first["found"],
                      "restart/find-differs-with-cache", lambda: (
                          "without cache %r, with cache %r"
                          % (first["found"], out["found"])))
        ctx.nontrivial = True
        if any(t.year < 1000 for (a, b, _) in truth.values() for t in (a, b)):
            ctx.label("year<1000")
    finally:
        real_shutil.rmtree(root, ignore_errors=True)


# --------------------------------------------------------------------------
# strategies
# --------------------------------------------------------------------------
SPECIAL_TIMES = [
    DMIN, DMAX, dt.datetime(1, 1, 1, 0, 0, 0, 1),
    dt.datetime(999, 12, 31, 23, 59, 59, 999999), dt.datetime(1000, 1, 1),
    dt.datetime(99, 2, 3, 4, 5, 6), dt.datetime(9999, 12, 31, 23, 59, 59),
    dt.datetime(1970, 1, 1), dt.datetime(1899, 12, 31, 23, 59, 59, 999999),
    dt.datetime(2018, 1, 1), dt.datetime(2016, 2, 29, 12, 0, 0, 500000),
    dt.datetime(2018, 6, 1, 0, 0, 0, 100),
]


def times():
    return st.one_of(
        st.sampled_from(SPECIAL_TIMES),
        st.datetimes(DMIN, DMAX),
        st.datetimes(dt.datetime(2000, 1, 1), dt.datetime(2030, 1, 1)),
        st.datetimes(dt.datetime(2000, 1, 1), dt.datetime(2030, 1, 1)).map(
            lambda t: t.replace(microsecond=0)))


# "\udce9" etc. are what os.fsdecode makes of file names that are not valid
# UTF-8 (b"caf\xe9" -> "caf\udce9"): lone surrogates in paths and attributes
SURROGATES = st.text("abc/.\udce9\udcff\udc80", min_size=1, max_size=8)
PATH_TEXT = st.one_of(
    st.text("abc/._- 01", min_size=0, max_size=12),
    SURROGATES,
    st.text("abc/._- 01äö雪λ\"\\\n\t{}[]*", max_size=12),
    st.text(max_size=10))
ATTR_TEXT = st.one_of(st.text("abAB01-_ ", max_size=6), st.text(max_size=6),
                      SURROGATES)
# the replay format of vp.runner tags datetimes etc. as {"__dt__": ...}; a
# generated one-key dict with such a key would be read back as that type
ATTR_KEY = ATTR_TEXT.filter(
    lambda k: not (k.startswith("__") and k.endswith("__")))


ATTR_SCALAR = st.one_of(
    ATTR_TEXT, st.integers(-2**40, 2**70), st.booleans(), st.none(),
    st.floats(allow_nan=False, allow_infinity=False),
    st.sampled_from([0, 1, -1, 0.5, 1e300, 5e-324, True, False]))
# what a handler may report and JSON can hold: containers of scalars
ATTR_VALUE = st.recursive(
    ATTR_SCALAR, lambda ch: st.one_of(
        st.lists(ch, max_size=3),
        st.dictionaries(ATTR_KEY, ch, max_size=3)), max_leaves=5)


def entry(i):
    return st.fixed_dictionaries({
        "path": PATH_TEXT.map(lambda s, i=i: "/d%d/%s" % (i, s)),
        "t": st.tuples(times(), times()),
        "attr": st.one_of(st.just({}), st.dictionaries(
            ATTR_KEY, ATTR_TEXT, max_size=3), st.dictionaries(
            ATTR_KEY, ATTR_VALUE, max_size=3)),
    }).map(lambda d: {"path": d["path"], "t0": min(d["t"]), "t1": max(d["t"]),
                      "attr": d["attr"]})


@st.composite
def contents(draw, lo=0, hi=40):
    if hi > 6:
        n = draw(st.one_of(st.integers(lo, 5), st.integers(lo, hi)))
    else:
        n = draw(st.integers(lo, hi))
    out = [draw(entry(i)) for i in range(n)]
    if out and draw(st.integers(0, 5)) == 0:
        # a path that is not of the /dN/ form at all
        out[0]["path"] = draw(PATH_TEXT)
        if any(e["path"] == out[0]["path"] for e in out[1:]):
            out[0]["path"] = "/d0/" + out[0]["path"]
    return out


def roundtrip_cases():
    return st.fixed_dictionaries({
        "entries": contents(),
        "cache_name": st.sampled_from(["cache.json", "cache", "c ä.json",
                                       ".cache.json"]),
        "saves": st.sampled_from([1, 1, 2]),
        "mutations": st.lists(st.fixed_dictionaries({
            "index": st.integers(0, 40),
            "how": st.sampled_from(["update", "item", "attr"]),
            "which": st.integers(0, 2),
            "t": times(),
            "value": ATTR_TEXT}), max_size=3),
    })


JSON_SCALARS = st.one_of(st.none(), st.booleans(), st.integers(-5, 5),
                         st.floats(allow_nan=False, allow_infinity=False,
                                   width=32), st.text(max_size=5))
JSON_VALUES = st.recursive(
    JSON_SCALARS, lambda ch: st.one_of(
        st.lists(ch, max_size=3), st.dictionaries(
            st.text(max_size=5).filter(lambda k: not k.startswith("__")), ch,
            max_size=3)), max_leaves=6)
GOOD = "2018-01-01T00:00:00.000000"
BAD_TIMES = [
    "", "x", "2018-01-01", "2018-01-01 00:00:00.000000",
    "2018-13-01T00:00:00.000000", "2018-02-30T00:00:00.000000",
    "2018-01-01T24:00:00.000000", "2018-01-01T00:60:00.000000",
    "2018-01-01T00:00:00", "2018-01-01T00:00:00.0000000",
    "0000-01-01T00:00:00.000000", "18-01-01T00:00:00.000000",
    "1-01-01T00:00:00.000000", "999-12-31T23:59:59.999999",
    "2018-01-01T00:00:00.000000Z", "2018-01-01T00:00:00.000000+00:00",
    " 2018-01-01T00:00:00.000000", "2018-01-01T00:00:00,000000",
    "2018-1-1T0:0:0.5", "2018-01-01t00:00:00.000000", "2018-01-01T00:00:00.5",
    "10000-01-01T00:00:00.000000", "2018-01-01T00:00:61.000000",
]


@st.composite
def mutations(draw):
    kind = draw(st.sampled_from([
        "none", "raw", "raw", "toplevel", "toplevel", "element", "element",
        "missing-key", "missing-key", "wrong-type", "wrong-type", "wrong-type",
        "bad-time", "bad-time", "null-time", "truncate", "truncate",
        "directory", "missing", "dup-path", "extra-key", "short-times",
        "short-times"]))
    m = {"kind": kind}
    if kind == "short-times":
        # a complete entry whose times hold fewer than two elements
        m["kind"] = kind = "wrong-type"
        m["index"] = draw(st.integers(0, 40))
        m["key"] = "times"
        m["value"] = draw(st.sampled_from([[], [GOOD], "", "a", [None],
                                           [[GOOD, GOOD]]]))
        m["short"] = True
        return m
    if kind == "raw":
        m["data"] = draw(st.one_of(
            st.binary(max_size=40),
            st.sampled_from([b"", b" ", b"\n", b"[", b"]", b"[]]", b"[,]",
                             b"\xff\xfe[]", b"\xef\xbb\xbf[]", b"{", b"nul",
                             b"[{}]", b"[[]]", b"NaN", b"[] x", b"''"]),
            st.text("[]{}\":, \n01ae", max_size=30).map(
                lambda s: s.encode())))
    elif kind == "toplevel":
        m["value"] = draw(st.one_of(
            st.sampled_from([{}, "", 0, None, True, 1.5, "abc",
                             {"path": "p", "times": [GOOD, GOOD], "attr": {}},
                             {"a": 1}, [[]], [None], [5], ["abc"], [{}],
                             [[GOOD, GOOD]]]),
            JSON_VALUES))
    elif kind == "element":
        m["index"] = draw(st.integers(0, 40))
        m["value"] = draw(st.one_of(
            st.sampled_from([None, 5, "s", [], ["path", "times", "attr"],
                             True, {}, {"path": "p"}]),
            JSON_VALUES.filter(lambda v: not (
                isinstance(v, dict) and {"path", "times", "attr"} <= set(v)))))
    elif kind == "missing-key":
        m["index"] = draw(st.integers(0, 40))
        m["key"] = draw(st.sampled_from(["path", "times", "attr"]))
    elif kind == "wrong-type":
        m["index"] = draw(st.integers(0, 40))
        m["key"] = draw(st.sampled_from(["path", "times", "times", "attr"]))
        if m["key"] == "path":
            m["value"] = draw(st.one_of(
                st.sampled_from([5, None, True, 1.5, [], ["a"], {}, {"a": 1}]),
                JSON_VALUES.filter(lambda v: not isinstance(v, str))))
        elif m["key"] == "times":
            m["value"] = draw(st.one_of(
                st.sampled_from([
                    GOOD, 5, None, [], [GOOD], [GOOD, GOOD, GOOD], [1, 2],
                    [GOOD, 5], [None, GOOD], [[GOOD], [GOOD]],
                    {"0": GOOD, "1": GOOD}, [1.5, 2.5], [True, False],
                    [GOOD, None], "ab"]),
                JSON_VALUES))
        else:
            m["value"] = draw(st.one_of(
                st.sampled_from([None, [], ["a"], "s", 5, True, [["a", "b"]]]),
                JSON_VALUES.filter(lambda v: not isinstance(v, dict))))
    elif kind == "bad-time":
        m["index"] = draw(st.integers(0, 40))
        m["which"] = draw(st.integers(0, 1))
        m["value"] = draw(st.one_of(st.sampled_from(BAD_TIMES),
                                    st.sampled_from(BAD_TIMES),
                                    st.text("0123456789-T:. ", max_size=28),
                                    st.text(max_size=8)))
    elif kind == "null-time":
        m["index"] = draw(st.integers(0, 40))
        m["which"] = draw(st.integers(0, 1))
        m["value"] = None
    elif kind == "truncate":
        m["at"] = draw(st.integers(0, 5000))
    elif kind == "dup-path":
        m["index"] = draw(st.integers(0, 40))
    return m


def corruption_cases():
    return st.fixed_dictionaries({
        "base": contents(0, 4),
        "preload": contents(0, 2).map(
            lambda es: [dict(e, path="/pre" + e["path"]) for e in es]),
        "layout": st.sampled_from(["default", "default", "compact", "indent"]),
        "loader": st.sampled_from(["load_cache", "constructor"]),
        "mutation": mutations(),
    })


SATS = ["A", "B", "NOAA18", "Metop-B", "sät"]
T0 = dt.datetime(2018, 1, 1)


@st.composite
def population_file(draw):
    far = draw(st.integers(0, 9)) == 0
    if far:
        t0 = draw(st.sampled_from([
            dt.datetime(1, 1, 1), dt.datetime(999, 12, 31, 23, 0, 0),
            dt.datetime(1000, 1, 1), dt.datetime(9998, 12, 31, 1, 2, 3),
            dt.datetime(1969, 12, 31, 23, 59, 59)]))
    else:
        t0 = T0 + dt.timedelta(seconds=draw(st.integers(0, 3 * 86400)))
    us = draw(st.sampled_from([0, 1, 500000, 999999]))
    return {"t0": t0.replace(microsecond=us),
            "dur": draw(st.one_of(st.just(0), st.integers(1, 7200),
                                  st.integers(1, 86399))),
            "sat": draw(st.sampled_from(SATS)),
            "hshift": draw(st.sampled_from([0, 0, 3600, 1800])),
            "present": draw(st.sampled_from([True, True, True, False]))}


def new_op(kind="new"):
    extra = {"collect": st.booleans()} if kind == "restart" else {}
    return st.fixed_dictionaries({
        **extra,
        "op": st.just(kind),
        "file": st.one_of(st.none(), st.integers(0, 1), st.integers(0, 1)),
        "coverage": st.sampled_from([None, None, 3600, 60, 86400]),
        "via": st.sampled_from(["filename", "filename", "both", "handler"]),
    })


def when():
    return st.one_of(
        st.none(),
        st.integers(-3600, 4 * 86400).map(
            lambda s: T0 + dt.timedelta(seconds=s)),
        st.sampled_from([dt.datetime(1, 1, 2), dt.datetime(1000, 1, 1),
                         dt.datetime(5000, 1, 1), dt.datetime(9999, 1, 1)]))


@st.composite
def find_op(draw):
    a, b = draw(when()), draw(when())
    if a is not None and b is not None:
        if a == b:
            b = a + dt.timedelta(seconds=draw(st.integers(1, 7200)))
        a, b = min(a, b), max(a, b)
    return {"op": "find", "fs": draw(st.integers(0, 2)), "start": a, "end": b,
            "no_files_error": draw(st.sampled_from([False, False, True]))}


def history_ops():
    fs = st.integers(0, 2)
    fl = st.integers(0, 1)
    save = st.fixed_dictionaries({"op": st.just("save"), "fs": fs, "file": fl})
    crash = st.fixed_dictionaries({
        "op": st.just("crash"), "fs": fs, "file": fl,
        "k": st.integers(0, 400),
        "mode": st.sampled_from(["exception", "kill"]),
        "buf": st.sampled_from([1, 16, 100, 8192])})
    load = st.fixed_dictionaries({"op": st.just("load"), "fs": fs, "file": fl})
    corrupt = st.fixed_dictionaries({
        "op": st.just("corrupt"), "file": fl,
        "kind": st.sampled_from(["truncate", "random", "toplevel", "element",
                                 "missing-key", "delete"]),
        "arg": st.integers(0, 1000)})
    coverage = st.fixed_dictionaries({
        "op": st.just("coverage"), "fs": fs,
        "value": st.sampled_from([None, 60, 3600, 7200, 86400])})
    toggle = st.fixed_dictionaries({"op": st.just("toggle"),
                                    "index": st.integers(0, 20)})
    single = st.one_of(
        find_op(), find_op(), find_op(), save, save, crash, crash, load, load,
        new_op(), new_op(), new_op("restart"), corrupt, coverage, toggle,
        toggle)

    @st.composite
    def part(draw):
        """one operation, or a phrase: write a cache file, read it back, look
        at the answers"""
        if draw(st.sampled_from([True, False, False])):
            return [draw(single)]
        i, j = draw(fs), draw(fl)
        out = []
        kind = draw(st.sampled_from(["persist", "persist", "crashy",
                                     "corrupted"]))
        if draw(st.booleans()):
            out.append(dict(draw(find_op()), fs=i))
        if kind == "corrupted":
            out.append(dict(draw(corrupt), file=j))
        else:
            out.append({"op": "save", "fs": i, "file": j})
            if draw(st.booleans()):
                out.append(draw(st.one_of(toggle, find_op(), coverage)))
        if kind == "crashy":
            out.append(dict(draw(crash), fs=i, file=j))
        reader = draw(st.sampled_from(["load", "new", "new", "restart"]))
        if reader == "load":
            out.append({"op": "load", "fs": draw(fs), "file": j})
        else:
            out.append(dict(draw(new_op(reader)), file=j))
        out.append(dict(draw(find_op()), fs=2))
        if kind == "corrupted":
            out.append({"op": "save", "fs": 2, "file": j})
        return out

    return st.sampled_from([3, 2, 4, 5, 6, 7, 1]).flatmap(
        lambda n: st.lists(part(), min_size=n, max_size=n)).map(
            lambda ph: [op for p in ph for op in p])


def history_cases():
    return st.fixed_dictionaries({
        "template": st.sampled_from(["end", "start", "start", "micro", "none"]),
        "files": st.sampled_from([3, 2, 4, 5, 6, 1, 3, 4, 2, 0]).flatmap(
            lambda n: st.lists(population_file(), min_size=n, max_size=n)),
        "decoys": st.integers(0, 2),
        "first": new_op(),
        "ops": history_ops(),
    })


def suites(tier):
    quick = tier == "quick"
    return [
        Suite("roundtrip", check_roundtrip, strategy=roundtrip_cases(),
              examples={"quick": 100, "thorough": 1500}),
        Suite("crash-points", check_crash,
              cases=crash_cases(40 if quick else 320, ["exception", "kill"], 1),
              exhaustive=True),
        Suite("hard-exit", check_crash,
              cases=crash_cases(7 if quick else 40, ["hard-exit"], 2,
                                max_entries=3),
              exhaustive=True),
        Suite("truncation", check_corruption,
              cases=truncation_cases(10), exhaustive=True),
        Suite("corruption", check_corruption, strategy=corruption_cases(),
              examples={"quick": 250, "thorough": 4000}),
        Suite("histories", check_history, strategy=history_cases(),
              examples={"quick": 250, "thorough": 2500}),
        Suite("restart", check_restart, cases=restart_cases,
              exhaustive=False),
    ]
