#!/usr/bin/env python3
"""Regenerates the sensitivity section of DESIGN.md (between the markers
<!-- SENSITIVITY:BEGIN --> and <!-- SENSITIVITY:END -->) from
mutants/*.json + mutants/*.result.json and seeded/*/meta.json."""
import glob, json, os, re
HERE = os.path.dirname(os.path.dirname(os.path.abspath(__file__)))
out = []
out.append("### 7.1 Independently written breaking changes (`seeded/`)\n")
out.append("Each was written by a fresh sub-agent that saw only the property text and a scratch worktree, "
           "confirmed here (patch applies, typhon imports, pinned baseline passes, demonstration fails with and passes without the change) "
           "and then run against the quick tier (`tools/seeded.py`).\n")
out.append("| change | property | needs to manifest | quick tier | caught by (signatures) |")
out.append("|---|---|---|---|---|")
for meta_path in sorted(glob.glob(os.path.join(HERE, "seeded", "*", "meta.json"))):
    m = json.load(open(meta_path))
    name = os.path.basename(os.path.dirname(meta_path))
    res = m["check_result"]
    sig = ", ".join("`%s`" % s.split(" ")[0] for s in (res.get("signatures") or [])[:3])
    verdict = "caught" if res.get("caught") else "**missed**"
    if m.get("neutralised"):
        verdict = "no longer breaks the property: " + m["neutralised"]
    if m.get("note"):
        verdict += " (after strengthening: " + m["note"].split(";")[0].replace("missed by the first version of the check ", "first version missed it ") + ")"
    out.append("| `%s` | %s | %s | %s | %s |" % (name, m["property"], m["needs_to_manifest"].replace("|", "/"), verdict, sig))
out.append("")
out.append("### 7.2 Hand-made mutants (`mutants/<ID>.json`, run by `tools/mutants.py <ID>` on a scratch copy)\n")
out.append("| property | mutants | killed by the quick tier | equivalent (survive, with reason) | other |")
out.append("|---|---|---|---|---|")
details = []
for path in sorted(glob.glob(os.path.join(HERE, "mutants", "C??.json"))):
    pid = os.path.basename(path)[:3]
    muts = json.load(open(path))
    rpath = path.replace(".json", ".result.json")
    results = {r["name"]: r for r in json.load(open(rpath))} if os.path.exists(rpath) else {}
    killed = [m for m in muts if results.get(m["name"], {}).get("status") == "killed"]
    equiv = [m for m in muts if m.get("expect") in ("equivalent", "not-claimed")]
    other = [m for m in muts if m not in killed and m not in equiv]
    out.append("| %s | %d | %d | %d | %s |" % (pid, len(muts), len(killed), len(equiv),
               "; ".join("%s: %s" % (m["name"], results.get(m["name"], {}).get("status", "not run")) for m in other) or "-"))
    for m in muts:
        r = results.get(m["name"], {})
        details.append("| %s | %s | %s | %s |" % (pid, m["name"].replace("|", "/"),
                       r.get("status", "not run") if m.get("expect") not in ("equivalent", "not-claimed") else m.get("expect") + ": " + m.get("why", ""),
                       ", ".join("`%s`" % s.split(" ")[0] for s in r.get("signatures", [])[:2])))
out.append("")
out.append("| property | mutant | result | caught by |")
out.append("|---|---|---|---|")
out += details
text = "\n".join(out) + "\n"
p = os.path.join(HERE, "DESIGN.md")
s = open(p).read()
b, e = "<!-- SENSITIVITY:BEGIN -->", "<!-- SENSITIVITY:END -->"
if b not in s:
    s += "\n## 7. Sensitivity: which checks catch which changes\n\n" + b + "\n" + e + "\n"
s = s[:s.index(b) + len(b)] + "\n" + text + s[s.index(e):]
open(p, "w").write(s)
print("DESIGN.md section 7 regenerated: %d seeded, %d mutant files" % (
    len(glob.glob(os.path.join(HERE, "seeded", "*", "meta.json"))), len(glob.glob(os.path.join(HERE, "mutants", "C??.json")))))
