"""Optional extra campaign for C15: coverage-guided bytes -> FileSet.load_cache.

Not part of the deciding check (./check C15 ...).  The same oracle as the
'corruption' suite of vp/props/c15_cache.py is applied to arbitrary bytes
written as the cache file: never an exception, a warning and an unchanged
cache unless the bytes are a JSON array of objects with path/times/attr, no
invented values.

    pip install --no-index --find-links /opt/veriftools/wheels --target /verif/.deps atheris
    VERIF_REPO=/repo PYTHONPATH=/verif/.deps /venv/bin/python tools/atheris_c15.py -max_total_time=60

Exit code of libFuzzer; a finding is printed as 'C15-ATHERIS VIOLATION' with
the signature, and libFuzzer keeps the input as crash-<hash>.
"""
import os
import shutil
import sys
import tempfile
import warnings

HERE = os.path.dirname(os.path.dirname(os.path.abspath(__file__)))
REPO = os.environ.get("VERIF_REPO", "/repo")
sys.path[:0] = [os.path.realpath(REPO), HERE]
deps = os.path.join(HERE, ".deps")
if os.path.isdir(deps):
    sys.path.append(deps)

try:
    import atheris
except ImportError:
    print("atheris is not installed (see the docstring); nothing done")
    sys.exit(0)

if "_C15_ATHERIS_ROOT" not in os.environ:
    # parent: owns the scratch directory (libFuzzer leaves through os._exit)
    import subprocess
    root = tempfile.mkdtemp(prefix="vp-c15-atheris-")
    try:
        rc = subprocess.call([sys.executable, os.path.abspath(__file__)]
                             + sys.argv[1:],
                             env=dict(os.environ, _C15_ATHERIS_ROOT=root))
    finally:
        shutil.rmtree(root, ignore_errors=True)
    sys.exit(rc)

warnings.simplefilter("ignore")
import importlib  # noqa: E402
import json  # noqa: E402
import json.decoder  # noqa: E402
import json.scanner  # noqa: E402

# the pure-python, instrumented JSON parser gives the fuzzer feedback from
# inside the parser (the C accelerator is invisible to it)
sys.modules["_json"] = None
with atheris.instrument_imports(include=["json", "json.decoder",
                                         "json.scanner"]):
    importlib.reload(json.scanner)
    importlib.reload(json.decoder)
    importlib.reload(json)

from vp import runner  # noqa: E402
from vp.props import c15_cache as C15  # noqa: E402
import typhon.files.fileset as F  # noqa: E402
from typhon.files.handlers.common import FileInfo  # noqa: E402

F.FileSet.load_cache = atheris.instrument_func(F.FileSet.load_cache)
FileInfo.from_json_dict = classmethod(
    atheris.instrument_func(FileInfo.from_json_dict.__func__))

ROOT = os.environ["_C15_ATHERIS_ROOT"]
CACHE = os.path.join(ROOT, "cache.json")
SEEDS = [
    b'[]',
    b'[{"path": "/d/a.nc", "times": ["2018-01-01T00:00:00.000000", '
    b'"2018-01-01T01:00:00.000000"], "attr": {"sat": "A"}}]',
    b'[{"path": "p", "times": [null, null], "attr": null}]',
    b'{}', b'""', b'[{"path": 1, "times": "ab", "attr": []}]',
]


def one_input(data):
    with open(CACHE, "wb") as fh:
        fh.write(data)
    kind, info = C15.classify(data)
    ctx = runner.Ctx("C15", {})
    with C15.NoAtexit():
        fs = F.FileSet(C15.template_in(ROOT))
        with C15.Recorder() as rec:
            fs.load_cache(CACHE)        # an exception here is a finding too
        try:
            C15.judge_load(ctx, {}, C15.snapshot(fs), kind, info,
                           bool(rec.texts), "atheris",
                           lambda: "load_cache of %s document %r"
                           % (kind, data[:300]))
        except runner.Violation as v:
            print("C15-ATHERIS VIOLATION %s: %s" % (v.signature, v.detail))
            raise


def main():
    corpus = os.path.join(ROOT, "corpus")
    os.mkdir(corpus)
    for i, s in enumerate(SEEDS):
        with open(os.path.join(corpus, "seed%d" % i), "wb") as fh:
            fh.write(s)
    args = [sys.argv[0]] + [a for a in sys.argv[1:]] + [corpus]
    if not any(a.startswith("-max_total_time") or a.startswith("-runs")
               for a in args):
        args.insert(1, "-max_total_time=60")
    if not any(a.startswith("-max_len") for a in args):
        args.insert(1, "-max_len=400")
    atheris.Setup(args, one_input)
    atheris.Fuzz()


if __name__ == "__main__":
    main()
