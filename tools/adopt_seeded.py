#!/usr/bin/env python3
"""Copy an independently written breaking change into seeded/<name>/ and write
its meta.json from a fresh evaluation (tools/seeded.py).

    tools/adopt_seeded.py <src dir> <PROPERTY-ID> <name> "<what it needs to manifest>" ["<note>"]
"""
import json, os, shutil, subprocess, sys
HERE = os.path.dirname(os.path.dirname(os.path.abspath(__file__)))
src, prop, name, needs = sys.argv[1:5]
note = sys.argv[5] if len(sys.argv) > 5 else ""
dst = os.path.join(HERE, "seeded", name)
os.makedirs(dst, exist_ok=True)
for fn in ("patch.diff", "demo.py", "notes.md"):
    if os.path.exists(os.path.join(src, fn)):
        shutil.copy(os.path.join(src, fn), os.path.join(dst, fn))
out = subprocess.run([sys.executable, os.path.join(HERE, "tools", "seeded.py"), dst, prop],
                     capture_output=True, text=True).stdout
res = json.loads(out[out.index("{"):])
meta = {
    "property": prop,
    "breaks": open(os.path.join(dst, "notes.md")).read().strip().splitlines()[0].lstrip("# ").strip()
    if os.path.exists(os.path.join(dst, "notes.md")) else "",
    "needs_to_manifest": needs,
    "written_by": "fresh sub-agent given only the property text and a scratch worktree (nothing from /verif)",
    "confirmed": {
        "repo_head": subprocess.run(["git", "-C", "/repo", "rev-parse", "--short", "HEAD"], capture_output=True, text=True).stdout.strip(),
        "demo_passes_on_clean_tree": res.get("demo_clean_rc") == 0,
        "patch_applies": res.get("patch_applies"),
        "typhon_imports": res.get("imports"),
        "pinned_baseline_passes_with_patch": res.get("baseline_ok"),
        "demo_fails_on_patched_tree": res.get("demo_patched_rc") == 1,
        "commands": ["tools/seeded.py seeded/%s %s  (scratch worktree of /repo HEAD + git apply patch.diff; tools/baseline.sh; demo.py; VERIF_REPO=<tree> ./check %s quick)" % (name, prop, prop)],
    },
    "check_result": {"quick_exit_code": res.get("check_rc"), "caught": res.get("caught"),
                     "signatures": res.get("check_signatures")},
    "note": note,
}
with open(os.path.join(dst, "meta.json"), "w") as fh:
    json.dump(meta, fh, indent=1)
print(name, "caught" if res.get("caught") else "MISSED", res.get("check_signatures"))
