#!/bin/bash
# tools/sweep.sh <tier> <seeds...>  - runs every registered check for every seed, prints one line per run.
# Evidence of these runs goes to a scratch directory (the committed evidence is left alone).
cd "$(dirname "$(readlink -f "$0")")/.." || exit 2
tier=$1; shift
export VERIF_EVIDENCE_DIR=$(mktemp -d /tmp/sweep-ev.XXXXXX)
ids=$(python3 -c "import json;print(' '.join(c['property_id'] for c in json.load(open('MANIFEST.json'))['checks']))")
for seed in "$@"; do
  for id in $ids; do
    out=$(VERIF_SEED=$seed ./check $id $tier 2>&1)
    rc=$?
    echo "seed=$seed $id rc=$rc $(echo "$out" | tail -1)"
    if [ $rc -ne 0 ]; then echo "$out" | grep -v KNOWN-FINDING | head -30 | cut -c1-600; fi
  done
done
rm -rf "$VERIF_EVIDENCE_DIR"
