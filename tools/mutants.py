#!/usr/bin/env python3
"""Sensitivity runs: apply hand-made mutants to a scratch copy of typhon and
check that the quick tier reports a violation.

    tools/mutants.py C01 [name-substring ...]   runs mutants/C01.json

mutants/<ID>.json = [{"name": ..., "file": "typhon/...py", "old": ..., "new": ...,
                      "count": 1, "expect": "killed"|"equivalent", "only": "suite,..."}]
The scratch copy lives in a fresh temporary directory and is removed after
every mutant.  Results are printed and written to mutants/<ID>.result.json.
"""
import json
import os
import shutil
import subprocess
import sys
import tempfile
import time

HERE = os.path.dirname(os.path.dirname(os.path.abspath(__file__)))
REPO = os.environ.get("VERIF_REPO", "/repo")


def run(prop, mutant, tier="quick"):
    tmp = tempfile.mkdtemp(prefix="mut-%s-" % prop)
    try:
        shutil.copytree(os.path.join(REPO, "typhon"),
                        os.path.join(tmp, "typhon"),
                        ignore=shutil.ignore_patterns("__pycache__"))
        path = os.path.join(tmp, mutant["file"])
        with open(path) as fh:
            src = fh.read()
        count = mutant.get("count", 1)
        if src.count(mutant["old"]) != count:
            return {"name": mutant["name"], "status": "NOT-APPLICABLE",
                    "detail": "pattern occurs %d times, expected %d"
                    % (src.count(mutant["old"]), count)}
        src = src.replace(mutant["old"], mutant["new"])
        for extra in mutant.get("also", []):
            if src.count(extra["old"]) != 1:
                return {"name": mutant["name"], "status": "NOT-APPLICABLE",
                        "detail": "secondary pattern not unique"}
            src = src.replace(extra["old"], extra["new"])
        with open(path, "w") as fh:
            fh.write(src)
        env = dict(os.environ, VERIF_REPO=tmp, VERIF_EVIDENCE_DIR=tmp)
        env.setdefault("VERIF_SEED", "1")
        cmd = [os.path.join(HERE, "check"), prop, tier]
        if mutant.get("only"):
            cmd += ["--only", mutant["only"]]
        t0 = time.time()
        proc = subprocess.run(cmd, env=env, capture_output=True, text=True)
        sigs = [l.split("signature:")[1].strip()
                for l in proc.stdout.splitlines() if "signature:" in l]
        status = {0: "SURVIVED", 1: "killed", 2: "INCONCLUSIVE"}.get(
            proc.returncode, "rc=%d" % proc.returncode)
        return {"name": mutant["name"], "status": status,
                "signatures": sigs[:4], "wall_s": round(time.time() - t0, 1),
                "tail": proc.stdout[-400:] if status != "killed" else ""}
    finally:
        shutil.rmtree(tmp, ignore_errors=True)
        # replays written for mutants are not kept
        rdir = os.path.join(HERE, "replays")
        if os.path.isdir(rdir):
            for fn in os.listdir(rdir):
                if fn.startswith(prop + "-"):
                    os.unlink(os.path.join(rdir, fn))


def main():
    prop = sys.argv[1]
    filt = sys.argv[2:]
    with open(os.path.join(HERE, "mutants", prop + ".json")) as fh:
        mutants = json.load(fh)
    if filt:
        mutants = [m for m in mutants if any(f in m["name"] for f in filt)]
    from concurrent.futures import ThreadPoolExecutor
    with ThreadPoolExecutor(int(os.environ.get("MUT_PAR", "3"))) as ex:
        results = list(ex.map(lambda m: run(prop, m), mutants))
    bad = 0
    for m, r in zip(mutants, results):
        expect = m.get("expect", "killed")
        ok = (r["status"] == "killed") == (expect == "killed")
        bad += not ok
        print("%-9s %-45s %6ss %s %s" % (
            r["status"], r["name"], r.get("wall_s", "-"),
            ",".join(r.get("signatures", []))[:120],
            "" if ok else "   <== expected " + expect))
        if r.get("tail") and r["status"] != "SURVIVED":
            print("    " + r["tail"].replace("\n", "\n    "))
        if r.get("detail"):
            print("    " + r["detail"])
    if not filt:
        with open(os.path.join(HERE, "mutants", prop + ".result.json"),
                  "w") as fh:
            json.dump(results, fh, indent=1)
    return 1 if bad else 0


if __name__ == "__main__":
    sys.exit(main())
