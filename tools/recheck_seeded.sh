#!/bin/bash
# Re-runs every adopted seeded change (or those matching the glob $1, e.g. "C0[1-3]-*") against the current /repo HEAD and /verif (PAR in parallel, default 3).
cd "$(dirname "$(readlink -f "$0")")/.." || exit 2
ls -d seeded/${1:-*}/ | xargs -P ${PAR:-3} -I{} bash -c '
  d={}; n=$(basename $d); p=$(python3 -c "import json;print(json.load(open(\"$d/meta.json\"))[\"property\"])")
  python3 tools/seeded.py $d $p --no-baseline 2>/dev/null | python3 -c "
import json,sys
d=json.load(sys.stdin)
ok = d.get(\"demo_clean_rc\")==0 and d.get(\"patch_applies\") and d.get(\"demo_patched_rc\")==1 and d.get(\"caught\")
if json.load(open(\"$d/meta.json\")).get(\"neutralised\"):   # no longer a violation: demo passes, check quiet
    ok = d.get(\"demo_clean_rc\")==0 and d.get(\"patch_applies\") and d.get(\"demo_patched_rc\")==0 and d.get(\"check_rc\")==0
print((\"ok     \" if ok else \"PROBLEM\"), \"$n\", {k:d.get(k) for k in [\"demo_clean_rc\",\"patch_applies\",\"demo_patched_rc\",\"check_rc\"]}, d.get(\"check_signatures\",[])[:2])"'
