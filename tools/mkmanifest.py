#!/usr/bin/env python3
"""Writes MANIFEST.json from the table below (keeps it valid at all times)."""
import json, os, subprocess
HERE = os.path.dirname(os.path.dirname(os.path.abspath(__file__)))

CHECKS = {}   # filled by tools/manifest_data.py
NOT_APPLICABLE = {}
exec(open(os.path.join(HERE, "tools", "manifest_data.py")).read())

props = [json.loads(l) for l in open(os.path.join(HERE, "properties.jsonl"))]
checks, na = [], []
for p in props:
    pid = p["id"]
    if pid in CHECKS:
        c = CHECKS[pid]
        checks.append({
            "property_id": pid,
            "quick_cmd": "./check %s quick" % pid,
            "thorough_cmd": "./check %s thorough" % pid,
            "evidence_file": "evidence/%s.json" % pid,
            "replay_cmd_template": "./check %s --replay {path}" % pid,
            "engine": "vp-runner",
            "level_claimed": {"category": c.get("level", "exploration"),
                              "text": c["text"], "design_ref": "DESIGN.md#" + pid},
            "level_note": c["note"],
            "technique": c["technique"],
        })
    else:
        na.append({"property_id": pid,
                   "reason": NOT_APPLICABLE.get(pid, "check not built yet in this revision of /verif (see DESIGN.md section 3 for its design)")})
manifest = {
    "version": 1,
    "setup_cmd": "./setup.sh",
    "hooks": {
        "guard": "TYPHON_VERIF",
        "enable": "no source hooks are needed: the checks import typhon from /repo's working tree (PYTHONPATH=/repo) and replace module-level names from outside",
        "baseline_off_cmd": "tools/baseline.sh",
        "source_commits": [],
        "add_only": True,
    },
    "engines": [{
        "name": "vp-runner", "path": "vp/runner.py",
        "serves_properties": [c["property_id"] for c in checks],
        "kind_free_text": "Hypothesis-driven property-based testing (generated plain-data cases, sharded over processes, shrunk failures saved as replay files) plus enumerated finite sub-spaces; brute-force / exact-arithmetic oracles",
    }],
    "checks": checks,
    "notes": "Fix commits in /repo and open findings are listed in known_findings.txt; DESIGN.md explains every check.",
    "not_applicable": na,
}
with open(os.path.join(HERE, "MANIFEST.json"), "w") as fh:
    json.dump(manifest, fh, indent=1)
    fh.write("\n")
print("MANIFEST.json: %d checks, %d not_applicable" % (len(checks), len(na)))
