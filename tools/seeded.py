#!/usr/bin/env python3
"""Evaluate an independently written breaking change (seeded/<name>/).

    tools/seeded.py <dir with patch.diff + demo.py> <PROPERTY-ID> [--tier quick]

Steps, all in a scratch git worktree of /repo's HEAD (removed afterwards):
  1. demo.py passes on the clean tree
  2. patch.diff applies; typhon still imports; the pinned baseline passes
  3. demo.py fails on the patched tree
  4. ./check <ID> <tier> with VERIF_REPO=<scratch tree>  (expected: exit 1)
Prints a JSON summary (also usable as the 'ran' part of meta.json).
"""
import json
import os
import subprocess
import sys
import tempfile

HERE = os.path.dirname(os.path.dirname(os.path.abspath(__file__)))
PY = "/venv/bin/python"


def sh(cmd, **kw):
    return subprocess.run(cmd, capture_output=True, text=True, **kw)


def main():
    src = os.path.abspath(sys.argv[1])
    prop = sys.argv[2]
    tier = "quick"
    if "--tier" in sys.argv:
        tier = sys.argv[sys.argv.index("--tier") + 1]
    skip_baseline = "--no-baseline" in sys.argv
    tmp = tempfile.mkdtemp(prefix="seedeval-")
    tree = os.path.join(tmp, "tree")
    out = {"dir": src, "property": prop}
    try:
        r = sh(["git", "-C", "/repo", "worktree", "add", "--detach", tree,
                "HEAD"])
        if r.returncode:
            print(r.stderr)
            return 2
        env = dict(os.environ, PYTHONPATH=tree, PYTHONHASHSEED="0")
        demo = os.path.join(src, "demo.py")
        r = sh([PY, demo], env=env, cwd=tmp)
        out["demo_clean_rc"] = r.returncode
        r = sh(["git", "-C", tree, "apply", os.path.join(src, "patch.diff")])
        out["patch_applies"] = r.returncode == 0
        if r.returncode:
            out["patch_error"] = r.stderr[-500:]
            print(json.dumps(out, indent=1))
            return 2
        r = sh([PY, "-c", "import typhon, typhon.files, typhon.collocations"],
               env=env, cwd=tmp)
        out["imports"] = r.returncode == 0
        if not skip_baseline:
            r = sh([os.path.join(HERE, "tools", "baseline.sh"), tree])
            out["baseline"] = r.stdout.strip().splitlines()[:3]
            out["baseline_ok"] = r.returncode == 0
        r = sh([PY, demo], env=env, cwd=tmp)
        out["demo_patched_rc"] = r.returncode
        out["demo_patched_tail"] = (r.stdout + r.stderr)[-300:]
        env2 = dict(os.environ, VERIF_REPO=tree, VERIF_EVIDENCE_DIR=tmp)
        env2.setdefault("VERIF_SEED", "1")
        r = sh([os.path.join(HERE, "check"), prop, tier], env=env2)
        out["check_rc"] = r.returncode
        out["check_signatures"] = [
            l.split("signature:")[1].strip()
            for l in r.stdout.splitlines() if "signature:" in l][:6]
        out["check_tail"] = r.stdout.strip().splitlines()[-1:]
        out["caught"] = r.returncode == 1
    finally:
        sh(["git", "-C", "/repo", "worktree", "remove", "--force", tree])
        sh(["rm", "-rf", tmp])
        rdir = os.path.join(HERE, "replays")
        if os.path.isdir(rdir):
            for fn in os.listdir(rdir):
                if fn.startswith(prop + "-"):
                    os.unlink(os.path.join(rdir, fn))
    print(json.dumps(out, indent=1))
    return 0


if __name__ == "__main__":
    sys.exit(main())
