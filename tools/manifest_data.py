CHECKS["C03"] = {
    "text": "Generated interval sets (int/float/datetime, unsorted, nested, duplicated, degenerate, zero) and queries are compared with a brute-force closed-interval oracle; all trees of <=3 intervals over {0..3} are enumerated against all queries/points over {-1..4}; FileSet.match is compared with a brute-force matching of the harness-created file populations. Exploration: absence of a counterexample in the explored space, not proof.",
    "note": "Trusted: the harness' O(n*m) interval comparison, Hypothesis' generators, the local file system.",
    "technique": "property-based testing (Hypothesis) against a brute-force reference model, plus exhaustive enumeration of small trees",
}
