CHECKS["C03"] = {
    "text": "Generated interval sets (int/float/datetime, unsorted, nested, duplicated, degenerate, zero) and queries are compared with a brute-force closed-interval oracle; all trees of <=3 intervals over {0..3} are enumerated against all queries/points over {-1..4}; FileSet.match is compared with a brute-force matching of the harness-created file populations. Exploration: absence of a counterexample in the explored space, not proof.",
    "note": "Trusted: the harness' O(n*m) interval comparison, Hypothesis' generators, the local file system.",
    "technique": "property-based testing (Hypothesis) against a brute-force reference model, plus exhaustive enumeration of small trees",
}
CHECKS["C01"] = {
    "text": "Generated path templates (0-4 directory levels, year/year2/month/day/doy/hour, literal and user-placeholder levels, full/partial/no end fields, wildcards), generated file populations around day/month/year ends with distractors, local and zip file systems, exclude lists, filters, sort/bundle/only_path options and boundary-aligned query periods are compared with a brute-force filter over the harness' own list of created files (exact multiset, times, attributes, order, bundle partition, NoFilesError, `in`, len). Exploration: no counterexample in ~1000 generated trees per quick run; not a proof.",
    "note": "Trusted: the harness' own name formatter and coverage model (vp/gen/filesets.py), the local file system and fsspec's ZipFileSystem, Hypothesis. Preconditions built into the generator: unambiguous templates (placeholders separated by literals), files in the directory of their start and no longer than one directory period.",
    "technique": "property-based testing (Hypothesis) against a brute-force reference model over harness-owned ground truth",
}
CHECKS["C02"] = {
    "text": "Generated templates (all documented temporal placeholders in directory and file part, repeated placeholders, full / partial / no end fields, user placeholders with default regex, fixed-width regex or value lists, literals with regex characters) and periods at the template's resolution (years 1000-9999 / 1965-2064, leap days, doy 366, roll-overs) are formatted by get_filename and parsed back by parse_filename / get_info; results are compared with the harness' own formatter and coverage model for all info_via modes (stub handler), names mutated so that they cannot match must raise ValueError, unknown / unfilled placeholders must raise their dedicated errors. Exploration over ~5000 templates x periods per quick run.",
    "note": "Trusted: the harness' formatter / end-time model (datetime arithmetic only). Preconditions: unambiguous templates; partial ends start at end_hour/end_minute/end_second.",
    "technique": "property-based testing (Hypothesis): round trip against an independent reference formatter/parser model, plus negative (mutated-name) cases",
}
CHECKS["C16"] = {
    "text": "Generated templates, populations (gaps, overlaps, discrete files, ties), filters, exclude lists and timestamps (inside files, in gaps, on boundaries, far away, exactly on an existing name) are answered by find_closest / fileset[t]; the answer is checked with the validity predicate of the statement over the harness' file list (covering file if one exists in the neighbourhood, otherwise minimal end-point distance; never an excluded, filtered or far-away file; NoFilesError/None iff no candidate). Exploration.",
    "note": "Trusted: harness ground truth of coverages. Files exactly on the edge of the neighbourhood window may be counted either way; for directory levels without temporal placeholder the neighbourhood is not defined by the statement (files within a year must be found).",
    "technique": "property-based testing (Hypothesis) with a validity-predicate oracle over harness-owned ground truth",
}
