CHECKS["C03"] = {
    "text": "Generated interval sets (int/float/datetime, unsorted, nested, duplicated, degenerate, zero) and queries are compared with a brute-force closed-interval oracle; all trees of <=3 intervals over {0..3} are enumerated against all queries/points over {-1..4}; FileSet.match is compared with a brute-force matching of the harness-created file populations. Exploration: absence of a counterexample in the explored space, not proof.",
    "note": "Trusted: the harness' O(n*m) interval comparison, Hypothesis' generators, the local file system.",
    "technique": "property-based testing (Hypothesis) against a brute-force reference model, plus exhaustive enumeration of small trees",
}
CHECKS["C01"] = {
    "text": "Generated path templates (0-4 directory levels, year/year2/month/day/doy/hour, literal and user-placeholder levels, full/partial/no end fields, wildcards), generated file populations around day/month/year ends with distractors, local and zip file systems, exclude lists, filters, sort/bundle/only_path options and boundary-aligned query periods are compared with a brute-force filter over the harness' own list of created files (exact multiset, times, attributes, order, bundle partition, NoFilesError, `in`, len). Exploration: no counterexample in ~1000 generated trees per quick run; not a proof.",
    "note": "Trusted: the harness' own name formatter and coverage model (vp/gen/filesets.py), the local file system and fsspec's ZipFileSystem, Hypothesis. Preconditions built into the generator: unambiguous templates (placeholders separated by literals), files in the directory of their start and no longer than one directory period.",
    "technique": "property-based testing (Hypothesis) against a brute-force reference model over harness-owned ground truth",
}
