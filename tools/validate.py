#!/usr/bin/env python3
"""Validates MANIFEST.json and evidence/*.json against the schemas in /root/.vp (run with python3-vt,
which has jsonschema) and cross-checks the manifest with properties.jsonl."""
import glob, json, os, sys
import jsonschema
HERE = os.path.dirname(os.path.dirname(os.path.abspath(__file__)))
man = json.load(open(os.path.join(HERE, "MANIFEST.json")))
jsonschema.validate(man, json.load(open("/root/.vp/MANIFEST.schema.json")))
ev_schema = json.load(open("/root/.vp/EVIDENCE.schema.json"))
props = [json.loads(l)["id"] for l in open(os.path.join(HERE, "properties.jsonl"))]
claimed = [c["property_id"] for c in man["checks"]]
na = [n["property_id"] for n in man.get("not_applicable", [])]
assert sorted(claimed + na) == sorted(props), (claimed, na)
bad = 0
for c in man["checks"]:
    path = os.path.join(HERE, c["evidence_file"])
    try:
        ev = json.load(open(path))
        jsonschema.validate(ev, ev_schema)
        assert ev["property_id"] == c["property_id"]
        assert ev["level"] == c["level_claimed"]["category"], (ev["level"], c["level_claimed"]["category"])
        note = "violations=%s tier=%s seed=%s eval=%s nontrivial=%s" % (
            ev.get("violations"), ev["tier"], ev["seed"], ev["coverage"]["evaluations"], ev["coverage"]["distinct_nontrivial"])
        if ev.get("violations"):
            bad += 1
            note += "   <== evidence records violations (stale?)"
        print("ok  ", c["property_id"], note)
    except Exception as exc:  # noqa
        bad += 1
        print("BAD ", c["property_id"], type(exc).__name__, str(exc)[:200])
sys.exit(1 if bad else 0)
