#!/bin/bash
# Runs the repository's pinned baseline (guard off) and compares with BASELINE.json's stable_pass list.
# usage: tools/baseline.sh [repo]
REPO=${1:-/repo}
OUT=$(mktemp /tmp/baseline.XXXXXX.xml)
unset TYPHON_VERIF
( cd "$REPO" && /venv/bin/python -m pytest -ra -q -p no:cacheprovider --timeout=900 --continue-on-collection-errors --junitxml="$OUT" >/dev/null 2>&1 )
/venv/bin/python - "$OUT" <<'PY'
import json, sys, xml.etree.ElementTree as ET
base = json.load(open("/root/.vp/BASELINE.json"))
stable = set(base["stable_pass"])
passed = set()
for tc in ET.parse(sys.argv[1]).getroot().iter("testcase"):
    if not any(c.tag in ("failure", "error", "skipped") for c in tc):
        passed.add("%s::%s" % (tc.get("classname"), tc.get("name")))
missing = sorted(stable - passed)
print("baseline: %d/%d stable tests pass; %d other tests pass" % (len(stable & passed), len(stable), len(passed - stable)))
for m in missing:
    print("  MISSING", m)
sys.exit(1 if missing else 0)
PY
rc=$?
rm -f "$OUT"
exit $rc
